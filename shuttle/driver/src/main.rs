//! E5: controlled-scheduler (shuttle) exploration of an instrumented copy of falcon-rust.
//! Every std::sync / std::thread / thread_local! / lazy_static! use of the library is shuttle's,
//! so every lock, atomic, Once and thread-local access inside an API call is a scheduling point.
//! Programs: 2-3 threads sharing keys; oracle: each thread's results equal what the same calls
//! produce when run alone (differential), signatures verify, salts are distinct.
//! Output: one JSON object per program on stdout.

use falcon_rust::{falcon1024, falcon512, verif_hooks as fh};
use rand::SeedableRng;
use serde_json::json;
use shuttle::scheduler::DfsScheduler;
use shuttle::{Config, Runner};
use std::sync::atomic::{AtomicUsize, Ordering};
use std::sync::{Arc, Mutex};

const CAP: usize = 20_000;

fn seed(i: u8) -> [u8; 32] {
    let mut s = [0u8; 32];
    s[0] = i;
    s
}

fn stream(id: u64) -> Box<rand_chacha::ChaCha20Rng> {
    Box::new(rand_chacha::ChaCha20Rng::seed_from_u64(0xe5e5_0000 ^ id))
}

/// sign with a thread-private deterministic stream installed (the hook's thread-local is a shuttle
/// thread-local in the instrumented copy)
fn sign512(id: u64, msg: &[u8], sk: &falcon512::SecretKey) -> Vec<u8> {
    fh::install_rng(stream(id));
    let s = falcon512::sign(msg, sk).to_bytes();
    fh::uninstall_rng();
    s
}
fn sign1024(id: u64, msg: &[u8], sk: &falcon1024::SecretKey) -> Vec<u8> {
    fh::install_rng(stream(id));
    let s = falcon1024::sign(msg, sk).to_bytes();
    fh::uninstall_rng();
    s
}

struct Outcome {
    name: &'static str,
    schedules: usize,
    capped: bool,
    failure: Option<String>,
}

fn replay_schedule() -> Option<String> {
    let a: Vec<String> = std::env::args().collect();
    if a.len() >= 4 && a[1] == "replay" {
        Some(a[3].clone())
    } else {
        None
    }
}

fn explore(name: &'static str, f: impl Fn() + Send + Sync + 'static) -> Outcome {
    if name != "baseline" {
        if let Some(sched) = replay_schedule() {
            let r = std::panic::catch_unwind(std::panic::AssertUnwindSafe(|| shuttle::replay(f, &sched)));
            let failure = r.err().map(|e| e.downcast_ref::<String>().cloned().or_else(|| e.downcast_ref::<&str>().map(|s| s.to_string())).unwrap_or_else(|| "panic".into()));
            return Outcome { name, schedules: 1, capped: false, failure };
        }
    }
    let count = Arc::new(AtomicUsize::new(0));
    let c2 = count.clone();
    let failure: Arc<Mutex<Option<String>>> = Arc::new(Mutex::new(None));
    let body = move || {
        c2.fetch_add(1, Ordering::SeqCst);
        f();
    };
    let mut config = Config::new();
    config.stack_size = 64 << 20;
    let r = std::panic::catch_unwind(std::panic::AssertUnwindSafe(|| {
        let runner = Runner::new(DfsScheduler::new(Some(CAP), false), config);
        runner.run(body)
    }));
    let mut out = Outcome { name, schedules: count.load(Ordering::SeqCst), capped: false, failure: None };
    match r {
        Ok(n) => {
            out.schedules = n;
            out.capped = n >= CAP;
        }
        Err(e) => {
            let msg = if let Some(s) = e.downcast_ref::<String>() {
                s.clone()
            } else if let Some(s) = e.downcast_ref::<&str>() {
                s.to_string()
            } else {
                "panic".to_string()
            };
            out.failure = Some(msg);
        }
    }
    let _ = failure;
    out
}

fn main() {
    let mut which = std::env::args().nth(1).unwrap_or_else(|| "all".to_string());
    if which == "replay" {
        which = std::env::args().nth(2).unwrap_or_else(|| "all".to_string());
    }
    // keys and sequential baselines, computed outside the scheduler
    let (sk1, pk1) = falcon512::keygen(seed(1));
    let (sk2, pk2) = falcon1024::keygen(seed(2));
    let (sk1, pk1, sk2, pk2) = (Arc::new(sk1), Arc::new(pk1), Arc::new(sk2), Arc::new(pk2));
    // baselines: the same calls, one after the other, inside a single-threaded shuttle execution
    let bases: Arc<Mutex<Vec<Vec<u8>>>> = Arc::new(Mutex::new(vec![]));
    {
        let (b, k1, k2) = (bases.clone(), sk1.clone(), sk2.clone());
        let o = explore("baseline", move || {
            let v = vec![sign512(1, b"message A", &k1), sign512(2, b"a longer message B ............", &k1), sign1024(3, b"message A", &k2)];
            *b.lock().unwrap() = v;
        });
        if o.failure.is_some() {
            println!("{}", json!({"program": "baseline", "schedules": o.schedules, "failure": o.failure}));
            std::process::exit(2);
        }
    }
    let (base_a, base_b, base_c) = {
        let b = bases.lock().unwrap();
        (b[0].clone(), b[1].clone(), b[2].clone())
    };
    let base_k = {
        let (s, p) = falcon512::keygen(seed(9));
        (s.to_bytes(), p.to_bytes())
    };
    let mut outcomes = vec![];

    if which == "all" || which == "sign" {
        let (sk1c, pk1c, sk2c, pk2c) = (sk1.clone(), pk1.clone(), sk2.clone(), pk2.clone());
        let (ba, bb, bc) = (base_a.clone(), base_b.clone(), base_c.clone());
        outcomes.push(explore("three threads sign with shared keys (512: two messages, 1024: one)", move || {
            let (sk1, pk1, sk2, pk2) = (sk1c.clone(), pk1c.clone(), sk2c.clone(), pk2c.clone());
            let (sk1b, pk1b) = (sk1.clone(), pk1.clone());
            let t1 = shuttle::thread::spawn(move || {
                let s = sign512(1, b"message A", &sk1);
                let sig = falcon512::Signature::from_bytes(&s).unwrap();
                assert!(falcon512::verify(b"message A", &sig, &pk1), "signature of thread 1 does not verify");
                s
            });
            let t2 = shuttle::thread::spawn(move || {
                let s = sign512(2, b"a longer message B ............", &sk1b);
                let sig = falcon512::Signature::from_bytes(&s).unwrap();
                assert!(falcon512::verify(b"a longer message B ............", &sig, &pk1b), "signature of thread 2 does not verify");
                s
            });
            let t3 = shuttle::thread::spawn(move || {
                let s = sign1024(3, b"message A", &sk2);
                let sig = falcon1024::Signature::from_bytes(&s).unwrap();
                assert!(falcon1024::verify(b"message A", &sig, &pk2), "signature of thread 3 does not verify");
                s
            });
            let (a, b, c) = (t1.join().unwrap(), t2.join().unwrap(), t3.join().unwrap());
            assert!(a[1..41] != b[1..41] && a[1..41] != c[1..41] && b[1..41] != c[1..41], "two concurrent signatures carry the same salt");
            assert!(a == ba, "thread 1's signature differs from the one the same call produces alone");
            assert!(b == bb, "thread 2's signature differs from the one the same call produces alone");
            assert!(c == bc, "thread 3's signature differs from the one the same call produces alone");
        }));
    }
    if which == "keygen" {
        let sk1c = sk1.clone();
        let bk = base_k.clone();
        let ba = base_a.clone();
        outcomes.push(explore("one thread runs keygen(seed 9) while another signs", move || {
            let sk1 = sk1c.clone();
            let k1 = shuttle::thread::spawn(|| {
                let (s, p) = falcon512::keygen(seed(9));
                (s.to_bytes(), p.to_bytes())
            });
            let s3 = shuttle::thread::spawn(move || sign512(1, b"message A", &sk1));
            let (a, c) = (k1.join().unwrap(), s3.join().unwrap());
            assert!(a == bk, "keygen(seed) run next to a signer differs from keygen(seed) run alone");
            assert!(c == ba, "a signature made during key generation differs from the one made alone");
        }));
    }
    if which == "all" || which == "keygen3" {
        let sk1c = sk1.clone();
        let bk = base_k.clone();
        let ba = base_a.clone();
        outcomes.push(explore("two threads keygen(seed 9) while a third signs", move || {
            let sk1 = sk1c.clone();
            let k1 = shuttle::thread::spawn(|| {
                let (s, p) = falcon512::keygen(seed(9));
                (s.to_bytes(), p.to_bytes())
            });
            let k2 = shuttle::thread::spawn(|| {
                let (s, p) = falcon512::keygen(seed(9));
                (s.to_bytes(), p.to_bytes())
            });
            let s3 = shuttle::thread::spawn(move || sign512(1, b"message A", &sk1));
            let (a, b, c) = (k1.join().unwrap(), k2.join().unwrap(), s3.join().unwrap());
            assert!(a == bk && b == bk, "concurrent keygen(seed) differs from keygen(seed) run alone");
            assert!(c == ba, "a signature made during key generation differs from the one made alone");
        }));
    }
    for o in outcomes {
        println!("{}", json!({"program": o.name, "schedules": o.schedules, "cap": CAP, "capped": o.capped, "failure": o.failure}));
    }
}

//! E5: controlled-scheduler exploration of an instrumented copy of falcon-rust (shuttle engine).
//!
//! Every std::sync / std::thread / thread_local! / lazy_static! / OnceLock use of the library is
//! shuttle's in the copy, so every lock, atomic, Once and thread-local access inside an API call is a
//! scheduling point. The driver owns the exploration: an exhaustive search with *preemption bounding*
//! (CHESS): every schedule with at most B preemptions is executed exactly once, fewest preemptions
//! first. A preemption is a switch away from a task that could have continued; switches at blocking
//! points, task exit and explicit yields are free.
//!
//! Each execution runs in a forked child of the driver, taken after the (single-threaded, also
//! scheduler-controlled) set-up: process-wide statics a change may have introduced start from the
//! same state in every execution, so executions are deterministic functions of their choice prefix
//! and can be replayed, and children run in parallel.
//!
//! Programs: 2-3 threads sharing freshly decoded key objects. Oracle: each thread's results equal what
//! the same calls produce alone (differential, when the baseline is deterministic), signatures verify,
//! salts are distinct.
//!
//! Output: one JSON object per line on stdout.

use falcon_rust::{falcon1024, falcon512, verif_hooks as fh};
use rand::SeedableRng;
use serde_json::{json, Value};
use shuttle::scheduler::{Schedule, Scheduler, Task, TaskId};
use shuttle::{Config, Runner};
use std::collections::BTreeMap;
use std::io::Read;
use std::os::fd::FromRawFd;
use std::sync::{Arc, Mutex};

/// maximum number of executions per program
const CAP: usize = 20_000;
/// decision points of one execution that are kept (and can be deviated from)
const KEEP: usize = 4096;
/// children run at the same time
const PAR: usize = 14;

#[derive(Default, Clone)]
struct Record {
    /// (alternatives, running task still enabled, preemptions before) for the first KEEP points
    points: Vec<(usize, bool, usize)>,
    choices: Vec<usize>,
    npoints: usize,
    diverged: bool,
}

/// Scheduler for exactly one execution: follows `prefix` (indices into the canonical order of the
/// runnable tasks: the running task first, then ascending ids), then always takes choice 0.
struct OneShot {
    prefix: Vec<usize>,
    step: usize,
    preemptions: usize,
    started: bool,
    rec: Arc<Mutex<Record>>,
}

impl Scheduler for OneShot {
    fn new_execution(&mut self) -> Option<Schedule> {
        if self.started {
            return None;
        }
        self.started = true;
        Some(Schedule::new(0x5eed))
    }

    fn next_task(&mut self, runnable: &[&Task], current: Option<TaskId>, is_yielding: bool) -> Option<TaskId> {
        let cur_enabled = match current {
            Some(c) => runnable.iter().any(|t| t.id() == c) && !is_yielding,
            None => false,
        };
        let mut order: Vec<TaskId> = vec![];
        if cur_enabled {
            order.push(current.unwrap());
        }
        let mut rest: Vec<TaskId> = runnable.iter().map(|t| t.id()).filter(|id| !(cur_enabled && Some(*id) == current)).collect();
        rest.sort_by_key(|id| usize::from(*id));
        if is_yielding {
            if let Some(c) = current {
                if let Some(pos) = rest.iter().position(|id| *id == c) {
                    let y = rest.remove(pos);
                    rest.push(y);
                }
            }
        }
        order.extend(rest);
        let mut rec = self.rec.lock().unwrap();
        let choice = if self.step < self.prefix.len() {
            let c = self.prefix[self.step];
            if c >= order.len() {
                // must not happen: executions are deterministic functions of the prefix
                rec.diverged = true;
                order.len() - 1
            } else {
                c
            }
        } else {
            0
        };
        if rec.points.len() < KEEP {
            rec.points.push((order.len(), cur_enabled, self.preemptions));
            rec.choices.push(choice);
        }
        rec.npoints += 1;
        if choice != 0 && cur_enabled {
            self.preemptions += 1;
        }
        self.step += 1;
        Some(order[choice])
    }

    fn next_u64(&mut self) -> u64 {
        panic!("the driver does not use scheduler-provided random data");
    }
}

fn panic_text(e: Box<dyn std::any::Any + Send>) -> String {
    if let Some(s) = e.downcast_ref::<String>() {
        s.clone()
    } else if let Some(s) = e.downcast_ref::<&str>() {
        s.to_string()
    } else {
        "panic".to_string()
    }
}

/// one execution of `f` under the given choice prefix, in this process
/// step budget of one execution: a multiple of what the set-up execution needed (set in main)
static STEP_BUDGET: std::sync::atomic::AtomicUsize = std::sync::atomic::AtomicUsize::new(400_000_000);

fn run_one(f: Arc<dyn Fn() + Send + Sync>, prefix: Vec<usize>) -> (Option<String>, Record) {
    let rec = Arc::new(Mutex::new(Record::default()));
    let mut config = Config::new();
    config.stack_size = 64 << 20;
    config.max_steps = shuttle::MaxSteps::FailAfter(STEP_BUDGET.load(std::sync::atomic::Ordering::SeqCst));
    let sched = OneShot { prefix, step: 0, preemptions: 0, started: false, rec: rec.clone() };
    let r = std::panic::catch_unwind(std::panic::AssertUnwindSafe(move || {
        Runner::new(sched, config).run(move || f());
    }));
    let record = rec.lock().unwrap_or_else(|e| e.into_inner()).clone();
    (r.err().map(panic_text), record)
}

fn encode(failure: &Option<String>, rec: &Record) -> String {
    let pts: Vec<Value> = rec.points.iter().zip(rec.choices.iter()).map(|((n, e, p), c)| json!([n, if *e { 1 } else { 0 }, p, c])).collect();
    json!({"failure": failure, "npoints": rec.npoints, "diverged": rec.diverged, "points": pts}).to_string()
}

fn decode(s: &str) -> Option<(Option<String>, Record)> {
    let v: Value = serde_json::from_str(s).ok()?;
    let mut rec = Record { npoints: v.get("npoints")?.as_u64()? as usize, diverged: v.get("diverged")?.as_bool()?, ..Default::default() };
    for p in v.get("points")?.as_array()? {
        let a = p.as_array()?;
        rec.points.push((a[0].as_u64()? as usize, a[1].as_u64()? == 1, a[2].as_u64()? as usize));
        rec.choices.push(a[3].as_u64()? as usize);
    }
    Some((v.get("failure").and_then(|x| x.as_str()).map(|s| s.to_string()), rec))
}

/// run the executions for `prefixes` in forked children (all at once), return their results in order
fn run_forked(f: &Arc<dyn Fn() + Send + Sync>, prefixes: &[Vec<usize>]) -> Vec<Option<(Option<String>, Record)>> {
    let mut kids: Vec<(i32, i32)> = vec![]; // (pid, read fd)
    for p in prefixes {
        let mut fds = [0i32; 2];
        if unsafe { libc::pipe(fds.as_mut_ptr()) } != 0 {
            kids.push((-1, -1));
            continue;
        }
        let pid = unsafe { libc::fork() };
        if pid == 0 {
            // child: one execution, result to the pipe, no atexit handlers
            unsafe { libc::close(fds[0]) };
            let (failure, rec) = run_one(f.clone(), p.clone());
            let out = encode(&failure, &rec);
            let bytes = out.as_bytes();
            let mut off = 0;
            while off < bytes.len() {
                let n = unsafe { libc::write(fds[1], bytes[off..].as_ptr() as *const libc::c_void, bytes.len() - off) };
                if n <= 0 {
                    break;
                }
                off += n as usize;
            }
            unsafe {
                libc::close(fds[1]);
                libc::_exit(0);
            }
        }
        unsafe { libc::close(fds[1]) };
        kids.push((pid, fds[0]));
    }
    let mut results = vec![];
    for (pid, fd) in kids {
        if pid <= 0 {
            results.push(None);
            continue;
        }
        let mut s = String::new();
        let mut file = unsafe { std::fs::File::from_raw_fd(fd) };
        let _ = file.read_to_string(&mut s);
        drop(file);
        let mut status = 0i32;
        unsafe { libc::waitpid(pid, &mut status, 0) };
        results.push(decode(&s));
    }
    results
}

struct Outcome {
    name: &'static str,
    schedules: usize,
    capped: bool,
    bound: usize,
    failure: Option<String>,
    prefix: Option<Vec<usize>>,
    per_cost: BTreeMap<usize, usize>,
    truncated_points: bool,
    crashed_children: usize,
}

/// all schedules with at most `bound` preemptions, fewest preemptions first
fn explore(name: &'static str, f: Arc<dyn Fn() + Send + Sync>, bound: usize) -> Outcome {
    let mut out = Outcome { name, schedules: 0, capped: false, bound, failure: None, prefix: None, per_cost: BTreeMap::new(), truncated_points: false, crashed_children: 0 };
    // pending prefixes ordered by (window of the last deviation, number of preemptions): first every schedule whose
    // deviations all lie within the first 16 scheduling points (0, 1, ... bound preemptions), then within the first
    // 64, 256, 1024, 4096. When the exploration completes this is the same set as plain iterative preemption
    // bounding; under a wall-clock budget it reaches early-deviation schedules of long executions first.
    fn window(len: usize) -> usize {
        match len {
            0..=16 => 0,
            17..=64 => 1,
            65..=256 => 2,
            257..=1024 => 3,
            _ => 4,
        }
    }
    let mut pending: BTreeMap<(usize, usize), Vec<Vec<usize>>> = BTreeMap::new();
    pending.insert((0, 0), vec![vec![]]);
    let started = std::time::Instant::now();
    let budget = std::env::var("E5_TIME_BUDGET_S").ok().and_then(|s| s.parse::<u64>().ok()).unwrap_or(90);
    loop {
        if started.elapsed().as_secs() > budget {
            // wall-clock budget of one program (a change that adds a lock per random draw makes every execution
            // millions of scheduling points long): stop, report what was covered
            out.capped = true;
            break;
        }
        let Some((&key, _)) = pending.iter().find(|(_, v)| !v.is_empty()) else { break };
        let cost = key.1;
        let level = pending.get_mut(&key).unwrap();
        let take = level.len().min(PAR).min(CAP.saturating_sub(out.schedules));
        if take == 0 {
            out.capped = true;
            break;
        }
        let batch: Vec<Vec<usize>> = level.drain(..take).collect();
        let results = run_forked(&f, &batch);
        for (prefix, res) in batch.into_iter().zip(results.into_iter()) {
            out.schedules += 1;
            *out.per_cost.entry(cost).or_insert(0) += 1;
            let Some((failure, rec)) = res else {
                out.crashed_children += 1;
                continue;
            };
            if rec.diverged {
                out.failure = Some("an execution did not follow its recorded choice prefix (the program is not a deterministic function of the schedule)".to_string());
                out.prefix = Some(prefix);
                return out;
            }
            if let Some(fl) = failure {
                let fl = if fl.contains("exceeded max_steps") {
                    format!("the execution did not finish within 10x the scheduling steps of the single-threaded set-up (a call does not terminate under this interleaving) [{}]", fl.split('.').next().unwrap_or(""))
                } else {
                    fl
                };
                out.failure = Some(format!("{} (schedule with {} preemption(s))", fl, cost));
                out.prefix = Some(prefix);
                return out;
            }
            if rec.npoints > rec.points.len() {
                out.truncated_points = true;
            }
            for i in prefix.len()..rec.points.len() {
                let (nalts, cur_enabled, before) = rec.points[i];
                let kid_cost = before + usize::from(cur_enabled);
                if kid_cost > bound {
                    continue;
                }
                for alt in 1..nalts {
                    let mut p = rec.choices[..i].to_vec();
                    p.push(alt);
                    let w = window(p.len());
                    pending.entry((w, kid_cost)).or_default().push(p);
                }
            }
        }
    }
    out
}

fn seed(i: u8) -> [u8; 32] {
    let mut s = [0u8; 32];
    s[0] = i;
    s
}

fn stream(id: u64) -> Box<rand_chacha::ChaCha20Rng> {
    Box::new(rand_chacha::ChaCha20Rng::seed_from_u64(0xe5e5_0000 ^ id))
}

/// sign with a thread-private deterministic stream installed (the hook's thread-local is a shuttle
/// thread-local in the instrumented copy)
fn sign512(id: u64, msg: &[u8], sk: &falcon512::SecretKey) -> Vec<u8> {
    fh::install_rng(stream(id));
    let s = falcon512::sign(msg, sk).to_bytes();
    fh::uninstall_rng();
    s
}
fn sign1024(id: u64, msg: &[u8], sk: &falcon1024::SecretKey) -> Vec<u8> {
    fh::install_rng(stream(id));
    let s = falcon1024::sign(msg, sk).to_bytes();
    fh::uninstall_rng();
    s
}

#[derive(Default, Clone, PartialEq)]
struct Setup {
    sk1: Vec<u8>,
    pk1: Vec<u8>,
    sk2: Vec<u8>,
    pk2: Vec<u8>,
    sigs: Vec<Vec<u8>>,
    key9: (Vec<u8>, Vec<u8>),
    key9_1024: (Vec<u8>, Vec<u8>),
    sig9: Vec<u8>,
}

fn hex(b: &[u8]) -> String {
    b.iter().map(|x| format!("{:02x}", x)).collect()
}
fn unhex(s: &str) -> Vec<u8> {
    (0..s.len() / 2).filter_map(|i| u8::from_str_radix(&s[2 * i..2 * i + 2], 16).ok()).collect()
}

/// The set-up in a forked child: the parent process (from which every execution is forked) never calls the
/// library itself, so each execution starts with whatever process-wide state the library has in its INITIAL state
/// (a cache that the baseline computation had already filled could not be raced on any more).
fn run_setup() -> Result<Setup, String> {
    let mut fds = [0i32; 2];
    if unsafe { libc::pipe(fds.as_mut_ptr()) } != 0 {
        return Err("pipe failed".into());
    }
    let pid = unsafe { libc::fork() };
    if pid == 0 {
        unsafe { libc::close(fds[0]) };
        let out = match run_setup_here() {
            Ok((st, npoints)) => json!({"ok": true, "npoints": npoints, "sk1": hex(&st.sk1), "pk1": hex(&st.pk1), "sk2": hex(&st.sk2), "pk2": hex(&st.pk2), "sigs": st.sigs.iter().map(|x| hex(x)).collect::<Vec<_>>(), "k9s": hex(&st.key9.0), "k9p": hex(&st.key9.1), "k9s2": hex(&st.key9_1024.0), "k9p2": hex(&st.key9_1024.1), "sig9": hex(&st.sig9)}).to_string(),
            Err(e) => json!({"ok": false, "error": e}).to_string(),
        };
        let bytes = out.as_bytes();
        let mut off = 0;
        while off < bytes.len() {
            let n = unsafe { libc::write(fds[1], bytes[off..].as_ptr() as *const libc::c_void, bytes.len() - off) };
            if n <= 0 {
                break;
            }
            off += n as usize;
        }
        unsafe {
            libc::close(fds[1]);
            libc::_exit(0);
        }
    }
    unsafe { libc::close(fds[1]) };
    let mut s = String::new();
    let mut file = unsafe { std::fs::File::from_raw_fd(fds[0]) };
    let _ = file.read_to_string(&mut s);
    drop(file);
    let mut status = 0i32;
    unsafe { libc::waitpid(pid, &mut status, 0) };
    let v: Value = serde_json::from_str(&s).map_err(|_| "the set-up process produced no result (crashed)".to_string())?;
    if v.get("ok").and_then(|x| x.as_bool()) != Some(true) {
        return Err(v.get("error").and_then(|x| x.as_str()).unwrap_or("set-up failed").to_string());
    }
    let g = |k: &str| unhex(v.get(k).and_then(|x| x.as_str()).unwrap_or(""));
    STEP_BUDGET.store(10 * v.get("npoints").and_then(|x| x.as_u64()).unwrap_or(0) as usize + 5_000_000, std::sync::atomic::Ordering::SeqCst);
    Ok(Setup {
        sk1: g("sk1"),
        pk1: g("pk1"),
        sk2: g("sk2"),
        pk2: g("pk2"),
        sigs: v.get("sigs").and_then(|x| x.as_array()).map(|a| a.iter().map(|x| unhex(x.as_str().unwrap_or(""))).collect()).unwrap_or_default(),
        key9: (g("k9s"), g("k9p")),
        key9_1024: (g("k9s2"), g("k9p2")),
        sig9: g("sig9"),
    })
}

/// keys and sequential baselines, computed in the calling process under the scheduler (single thread)
fn run_setup_here() -> Result<(Setup, usize), String> {
    let slot: Arc<Mutex<Option<Setup>>> = Arc::new(Mutex::new(None));
    let s2 = slot.clone();
    let f: Arc<dyn Fn() + Send + Sync> = Arc::new(move || {
        let (sk1, pk1) = falcon512::keygen(seed(1));
        let (sk2, pk2) = falcon1024::keygen(seed(2));
        let (k9s, k9p) = falcon512::keygen(seed(9));
        let (k9s2, k9p2) = falcon1024::keygen(seed(9));
        let k9 = falcon512::SecretKey::from_bytes(&k9s.to_bytes()).expect("own key decodes");
        let sig9 = sign512(4, b"message A", &k9);
        let k1 = falcon512::SecretKey::from_bytes(&sk1.to_bytes()).expect("own key decodes");
        let k2 = falcon1024::SecretKey::from_bytes(&sk2.to_bytes()).expect("own key decodes");
        let sigs = vec![sign512(1, b"message A", &k1), sign512(2, b"a longer message B ............", &k1), sign1024(3, b"message A", &k2)];
        *s2.lock().unwrap() = Some(Setup { sk1: sk1.to_bytes(), pk1: pk1.to_bytes(), sk2: sk2.to_bytes(), pk2: pk2.to_bytes(), sigs, key9: (k9s.to_bytes(), k9p.to_bytes()), key9_1024: (k9s2.to_bytes(), k9p2.to_bytes()), sig9 });
    });
    let (failure, rec) = run_one(f, vec![]);
    if let Some(fl) = failure {
        return Err(fl);
    }
    // an execution of a program does at most about as much work as the set-up (4 keygens + 4 signatures):
    // a run that needs 10x its scheduling steps is reported as not terminating (budget set by the caller)
    let v = slot.lock().unwrap().clone();
    v.map(|s| (s, rec.npoints)).ok_or_else(|| "set-up produced nothing".to_string())
}

fn main() {
    let args: Vec<String> = std::env::args().collect();
    let replay = args.len() >= 4 && args[1] == "replay";
    let which = if replay { args[2].clone() } else { args.get(1).cloned().unwrap_or_else(|| "all".to_string()) };
    let bound: usize = std::env::var("E5_MAX_PREEMPTIONS").ok().and_then(|s| s.parse().ok()).unwrap_or(2);

    let setup = match run_setup() {
        Ok(s) => s,
        Err(e) => {
            println!("{}", json!({"program": "set-up (keygen x3, sign x3, single thread)", "schedules": 1, "failure": e}));
            std::process::exit(0);
        }
    };
    // second run: if the same calls with the same installed streams do not repeat byte for byte, the
    // library draws randomness the hook does not own (e.g. straight from the OS); the byte-equality oracle
    // is then dropped and only the property-level oracles (verify, distinct salts) remain
    let deterministic = matches!(run_setup(), Ok(again) if again == setup);
    println!("{}", json!({"note": "baseline", "deterministic_under_installed_streams": deterministic}));
    let setup = Arc::new(setup);

    let mut programs: Vec<(&'static str, &'static str, Arc<dyn Fn() + Send + Sync>)> = vec![];
    {
        let st = setup.clone();
        programs.push((
            "sign",
            "three threads sign with shared keys (512: two messages, 1024: one)",
            Arc::new(move || {
                // fresh key objects in every execution (a key object may carry lazily built state: its first
                // use must happen under the scheduler too)
                let sk1 = Arc::new(falcon512::SecretKey::from_bytes(&st.sk1).expect("own key decodes"));
                let sk2 = Arc::new(falcon1024::SecretKey::from_bytes(&st.sk2).expect("own key decodes"));
                let pk1 = Arc::new(falcon512::PublicKey::from_bytes(&st.pk1).expect("own key decodes"));
                let pk2 = Arc::new(falcon1024::PublicKey::from_bytes(&st.pk2).expect("own key decodes"));
                let (sk1b, pk1b) = (sk1.clone(), pk1.clone());
                let t1 = shuttle::thread::spawn(move || {
                    let s = sign512(1, b"message A", &sk1);
                    let sig = falcon512::Signature::from_bytes(&s).unwrap();
                    assert!(falcon512::verify(b"message A", &sig, &pk1), "signature of thread 1 does not verify");
                    s
                });
                let t2 = shuttle::thread::spawn(move || {
                    let s = sign512(2, b"a longer message B ............", &sk1b);
                    let sig = falcon512::Signature::from_bytes(&s).unwrap();
                    assert!(falcon512::verify(b"a longer message B ............", &sig, &pk1b), "signature of thread 2 does not verify");
                    s
                });
                let t3 = shuttle::thread::spawn(move || {
                    let s = sign1024(3, b"message A", &sk2);
                    let sig = falcon1024::Signature::from_bytes(&s).unwrap();
                    assert!(falcon1024::verify(b"message A", &sig, &pk2), "signature of thread 3 does not verify");
                    s
                });
                let (a, b, c) = (t1.join().unwrap(), t2.join().unwrap(), t3.join().unwrap());
                assert!(a[1..41] != b[1..41] && a[1..41] != c[1..41] && b[1..41] != c[1..41], "two concurrent signatures carry the same salt");
                // afterwards, sequentially: the signatures made concurrently still verify (and only for their own message)
                {
                    let pk1 = falcon512::PublicKey::from_bytes(&st.pk1).expect("own key decodes");
                    let pk2 = falcon1024::PublicKey::from_bytes(&st.pk2).expect("own key decodes");
                    let (sa, sb, sc) = (falcon512::Signature::from_bytes(&a).unwrap(), falcon512::Signature::from_bytes(&b).unwrap(), falcon1024::Signature::from_bytes(&c).unwrap());
                    assert!(falcon512::verify(b"a longer message B ............", &sb, &pk1) && falcon512::verify(b"message A", &sa, &pk1) && falcon1024::verify(b"message A", &sc, &pk2), "a signature made concurrently is rejected by a later sequential verification");
                    assert!(!falcon512::verify(b"message A", &sb, &pk1) && !falcon512::verify(b"a longer message B ............", &sa, &pk1), "after concurrent signing, a later verification accepts a signature for the wrong message");
                }
                if deterministic {
                    assert!(a == st.sigs[0], "thread 1's signature differs from the one the same call produces alone");
                    assert!(b == st.sigs[1], "thread 2's signature differs from the one the same call produces alone");
                    assert!(c == st.sigs[2], "thread 3's signature differs from the one the same call produces alone");
                }
            }),
        ));
    }
    {
        let st = setup.clone();
        programs.push((
            "keygen",
            "one thread runs keygen(seed 9) while another signs",
            Arc::new(move || {
                let sk1 = Arc::new(falcon512::SecretKey::from_bytes(&st.sk1).expect("own key decodes"));
                let k1 = shuttle::thread::spawn(|| {
                    let (s, p) = falcon512::keygen(seed(9));
                    (s.to_bytes(), p.to_bytes())
                });
                let s3 = shuttle::thread::spawn(move || sign512(1, b"message A", &sk1));
                let (a, c) = (k1.join().unwrap(), s3.join().unwrap());
                assert!(a == st.key9, "keygen(seed) run next to a signer differs from keygen(seed) run alone");
                if deterministic {
                    assert!(c == st.sigs[0], "a signature made during key generation differs from the one made alone");
                }
            }),
        ));
    }
    {
        let st = setup.clone();
        programs.push((
            "keygen3",
            "two threads keygen(seed 9) while a third signs",
            Arc::new(move || {
                let sk1 = Arc::new(falcon512::SecretKey::from_bytes(&st.sk1).expect("own key decodes"));
                let k1 = shuttle::thread::spawn(|| {
                    let (s, p) = falcon512::keygen(seed(9));
                    (s.to_bytes(), p.to_bytes())
                });
                let k2 = shuttle::thread::spawn(|| {
                    let (s, p) = falcon512::keygen(seed(9));
                    (s.to_bytes(), p.to_bytes())
                });
                let s3 = shuttle::thread::spawn(move || sign512(1, b"message A", &sk1));
                let (a, b, c) = (k1.join().unwrap(), k2.join().unwrap(), s3.join().unwrap());
                assert!(a == st.key9 && b == st.key9, "concurrent keygen(seed) differs from keygen(seed) run alone");
                if deterministic {
                    assert!(c == st.sigs[0], "a signature made during key generation differs from the one made alone");
                }
            }),
        ));
    }

    {
        let st = setup.clone();
        programs.push((
            "keygen_stream",
            "one thread generates two Falcon-512 keys in a row (seeds 9, 1) while another generates one (seed 9)",
            Arc::new(move || {
                let t1 = shuttle::thread::spawn(|| {
                    let (s, p) = falcon512::keygen(seed(9));
                    let (s2, p2) = falcon512::keygen(seed(1));
                    ((s.to_bytes(), p.to_bytes()), (s2.to_bytes(), p2.to_bytes()))
                });
                let t2 = shuttle::thread::spawn(|| {
                    let (s, p) = falcon512::keygen(seed(9));
                    (s.to_bytes(), p.to_bytes())
                });
                let (a, b) = (t1.join().unwrap(), t2.join().unwrap());
                assert!(a.0 == st.key9 && b == st.key9, "keygen(seed) overlapping other key generations differs from keygen(seed) run alone");
                assert!(a.1 == (st.sk1.clone(), st.pk1.clone()), "the second key generation of a thread, overlapping another thread's, differs from the same call alone");
            }),
        ));
    }
    {
        let st = setup.clone();
        programs.push((
            "keygen2",
            "Falcon-512 and Falcon-1024 key generation from the SAME seed at the same time, and a decode",
            Arc::new(move || {
                let b1 = st.sk1.clone();
                let k1 = shuttle::thread::spawn(|| {
                    let (s, p) = falcon512::keygen(seed(9));
                    (s.to_bytes(), p.to_bytes())
                });
                let k2 = shuttle::thread::spawn(|| {
                    let (s, p) = falcon1024::keygen(seed(9));
                    (s.to_bytes(), p.to_bytes())
                });
                let d = shuttle::thread::spawn(move || falcon512::SecretKey::from_bytes(&b1).expect("own key decodes").to_bytes());
                let (a, b, c) = (k1.join().unwrap(), k2.join().unwrap(), d.join().unwrap());
                assert!(a == st.key9, "falcon512::keygen(seed) next to falcon1024::keygen(same seed) differs from the same call alone");
                assert!(b == st.key9_1024, "falcon1024::keygen(seed) next to falcon512::keygen(same seed) differs from the same call alone");
                assert!(c == st.sk1, "a key decoded during key generation re-encodes differently");
            }),
        ));
    }
    {
        let st = setup.clone();
        programs.push((
            "verify",
            "four threads verify (512: two messages under one shared public key object and one under another key, 1024: one), valid and invalid pairs, then sequentially again",
            Arc::new(move || {
                let pk1 = Arc::new(falcon512::PublicKey::from_bytes(&st.pk1).expect("own key decodes"));
                let pk2 = Arc::new(falcon1024::PublicKey::from_bytes(&st.pk2).expect("own key decodes"));
                let (sa, sb, sc) = (st.sigs[0].clone(), st.sigs[1].clone(), st.sigs[2].clone());
                let (sa2, sb2) = (sa.clone(), sb.clone());
                let pk1b = pk1.clone();
                let pk9 = Arc::new(falcon512::PublicKey::from_bytes(&st.key9.1).expect("own key decodes"));
                let (s9, s9b, sa3, pk1c, pk9c) = (st.sig9.clone(), st.sig9.clone(), sa.clone(), pk1.clone(), pk9.clone());
                // a fourth thread verifies under ANOTHER Falcon-512 key at the same time
                let t4 = shuttle::thread::spawn(move || {
                    let sig = falcon512::Signature::from_bytes(&s9).unwrap();
                    let foreign = falcon512::Signature::from_bytes(&sa3).unwrap();
                    (falcon512::verify(b"message A", &sig, &pk9), falcon512::verify(b"message A", &foreign, &pk9))
                });
                let t1 = shuttle::thread::spawn(move || {
                    let sig = falcon512::Signature::from_bytes(&sa).unwrap();
                    let other = falcon512::Signature::from_bytes(&sb2).unwrap();
                    (falcon512::verify(b"message A", &sig, &pk1), falcon512::verify(b"message A", &other, &pk1))
                });
                let t2 = shuttle::thread::spawn(move || {
                    let sig = falcon512::Signature::from_bytes(&sb).unwrap();
                    let other = falcon512::Signature::from_bytes(&sa2).unwrap();
                    (falcon512::verify(b"a longer message B ............", &sig, &pk1b), falcon512::verify(b"a longer message B ............", &other, &pk1b))
                });
                let t3 = shuttle::thread::spawn(move || {
                    let sig = falcon1024::Signature::from_bytes(&sc).unwrap();
                    let mut bad = sc.clone();
                    bad[50] ^= 0x10;
                    let badsig = falcon1024::Signature::from_bytes(&bad).unwrap();
                    (falcon1024::verify(b"message A", &sig, &pk2), falcon1024::verify(b"message A", &badsig, &pk2))
                });
                let (a, b, c, d) = (t1.join().unwrap(), t2.join().unwrap(), t3.join().unwrap(), t4.join().unwrap());
                assert!(a.0 && b.0 && c.0 && d.0, "a valid signature is rejected when verifications run concurrently");
                assert!(!a.1 && !b.1 && !c.1 && !d.1, "an invalid (message, signature) pair is accepted when verifications run concurrently");
                // and afterwards, sequentially: whatever the concurrent calls left behind must not change later verdicts
                let again1 = falcon512::verify(b"message A", &falcon512::Signature::from_bytes(&st.sigs[0]).unwrap(), &pk1c);
                let again9 = falcon512::verify(b"message A", &falcon512::Signature::from_bytes(&s9b).unwrap(), &pk9c);
                let cross = falcon512::verify(b"message A", &falcon512::Signature::from_bytes(&s9b).unwrap(), &pk1c);
                assert!(again1 && again9 && !cross, "after concurrent verifications, a later sequential verification gives a wrong verdict");
            }),
        ));
    }
    {
        let st = setup.clone();
        programs.push((
            "decode",
            "three threads decode secret keys (the same Falcon-512 bytes twice, Falcon-1024 once), re-encode and sign",
            Arc::new(move || {
                let (b1, b1b, b2) = (st.sk1.clone(), st.sk1.clone(), st.sk2.clone());
                let (p1, p2) = (st.pk1.clone(), st.pk2.clone());
                let t1 = shuttle::thread::spawn(move || {
                    let k = falcon512::SecretKey::from_bytes(&b1).expect("own key decodes");
                    (k.to_bytes(), sign512(1, b"message A", &k))
                });
                let t2 = shuttle::thread::spawn(move || {
                    let k = falcon512::SecretKey::from_bytes(&b1b).expect("own key decodes");
                    let s = sign512(2, b"a longer message B ............", &k);
                    let pk = falcon512::PublicKey::from_bytes(&p1).unwrap();
                    let ok = falcon512::verify(b"a longer message B ............", &falcon512::Signature::from_bytes(&s).unwrap(), &pk);
                    (k.to_bytes(), s, ok)
                });
                let t3 = shuttle::thread::spawn(move || {
                    let k = falcon1024::SecretKey::from_bytes(&b2).expect("own key decodes");
                    let s = sign1024(3, b"message A", &k);
                    let pk = falcon1024::PublicKey::from_bytes(&p2).unwrap();
                    let ok = falcon1024::verify(b"message A", &falcon1024::Signature::from_bytes(&s).unwrap(), &pk);
                    (k.to_bytes(), s, ok)
                });
                let (a, b, c) = (t1.join().unwrap(), t2.join().unwrap(), t3.join().unwrap());
                assert!(a.0 == st.sk1 && b.0 == st.sk1 && c.0 == st.sk2, "a secret key decoded while other threads decode re-encodes differently");
                // afterwards, sequentially: later decodes of the same encodings still give the same keys
                let r1 = falcon512::SecretKey::from_bytes(&st.sk1).expect("own key decodes");
                let r2 = falcon1024::SecretKey::from_bytes(&st.sk2).expect("own key decodes");
                assert!(r1.to_bytes() == st.sk1 && r2.to_bytes() == st.sk2, "after concurrent decodes, a later decode of the same bytes gives a different key");
                if deterministic {
                    assert!(sign512(1, b"message A", &r1) == st.sigs[0] && sign1024(3, b"message A", &r2) == st.sigs[2], "after concurrent decodes, a key decoded later signs differently from the same key decoded alone");
                }
                assert!(b.2 && c.2, "a signature made with a key decoded concurrently does not verify");
                if deterministic {
                    assert!(a.1 == st.sigs[0] && b.1 == st.sigs[1] && c.1 == st.sigs[2], "a key decoded while other threads decode signs differently from the same key decoded alone");
                }
            }),
        ));
    }

    for (key, name, f) in programs {
        if which != "all" && !which.split(',').any(|w| w == key) {
            continue;
        }
        if replay {
            let prefix: Vec<usize> = args[3].split(',').filter(|s| !s.is_empty()).filter_map(|s| s.parse().ok()).collect();
            let res = run_forked(&f, &[prefix]);
            let failure = res.into_iter().next().flatten().and_then(|(fl, _)| fl);
            println!("{}", json!({"program": name, "key": key, "replayed": true, "failure": failure}));
            continue;
        }
        let o = explore(name, f, bound);
        let per: Vec<Value> = o.per_cost.iter().map(|(k, v)| json!({"preemptions": k, "schedules": v})).collect();
        println!(
            "{}",
            json!({"program": o.name, "key": key, "schedules": o.schedules, "preemption_bound": o.bound, "cap": CAP, "capped": o.capped, "failure": o.failure,
                   "prefix": o.prefix.map(|p| p.iter().map(|x| x.to_string()).collect::<Vec<_>>().join(",")),
                   "per_preemption_count": per, "points_beyond_the_first_4096_not_deviated_from": o.truncated_points, "crashed_children": o.crashed_children})
        );
    }
}

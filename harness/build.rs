use std::path::Path;

fn main() {
    let root = Path::new(env!("CARGO_MANIFEST_DIR")).join("../third_party/pqclean");
    let common = root.join("common");
    println!("cargo:rerun-if-changed={}", root.display());
    cc::Build::new()
        .include(&common)
        .file(common.join("fips202.c"))
        .file(common.join("randombytes.c"))
        .opt_level(2)
        .warnings(false)
        .compile("vf_pqcommon");
    for v in ["falcon-512", "falcon-1024"] {
        let dir = root.join(v);
        let mut b = cc::Build::new();
        b.include(&common).include(&dir).opt_level(2).warnings(false);
        for f in [
            "codec.c", "common.c", "fft.c", "fpr.c", "keygen.c", "pqclean.c", "rng.c", "sign.c",
            "vrfy.c",
        ] {
            b.file(dir.join(f));
        }
        b.compile(&format!("vf_{}", v.replace('-', "")));
    }
}

//! C03 - decoders and verify are total (no unwinding on untrusted bytes), in the overflow-checked
//! build. E1 over lengths x headers x fill patterns and over single fields; E2 over the
//! end-of-buffer windows / run tokens of the streaming decoder, reached through verify.

use super::gen_codec::{for_each_tail, runs, token_body};
use super::{found, Found};
use crate::api::{Variant, V1024, V512};
use crate::ctx::{catch, hex, unhex, Ctx, Part, Tier};
use crate::refmodel::{keycodec, zq};
use rayon::prelude::*;
use serde_json::{json, Value};
use std::collections::BTreeMap;

fn squash(msg: &str) -> String {
    // panic message with numbers replaced, so one defect is one class
    let mut out = String::new();
    let mut prev_digit = false;
    for c in msg.chars() {
        if c.is_ascii_digit() {
            if !prev_digit {
                out.push('#');
            }
            prev_digit = true;
        } else {
            out.push(c);
            prev_digit = false;
        }
    }
    out
}

#[derive(Default)]
struct Tally {
    cases: u64,
    ok: u64,
    err: u64,
    found: BTreeMap<String, Found>,
    nviol: u64,
}

impl Tally {
    fn record<T>(&mut self, site: &str, r: Result<Result<T, String>, String>, case: impl FnOnce() -> Value) {
        self.cases += 1;
        match r {
            Ok(Ok(_)) => self.ok += 1,
            Ok(Err(_)) => self.err += 1,
            Err(p) => {
                self.nviol += 1;
                let key = format!("{}:panic:{}", site, squash(&p));
                if !self.found.contains_key(&key) {
                    let what = format!("{} panicked: {}", site, p);
                    self.found.insert(key.clone(), found(key, what, case()));
                }
            }
        }
    }
    fn merge(&mut self, o: Tally) {
        self.cases += o.cases;
        self.ok += o.ok;
        self.err += o.err;
        self.nviol += o.nviol;
        for (k, v) in o.found {
            self.found.entry(k).or_insert(v);
        }
    }
    fn into_part(self, ctx: &mut Ctx, mut part: Part, okname: &str, errname: &str) {
        part.states = self.cases;
        part.transitions = self.cases;
        part.validated = self.cases;
        part.outcome(format!("{} x{}", okname, self.ok));
        part.outcome(format!("{} x{}", errname, self.err));
        part.set("panicking_cases", json!(self.nviol));
        for (_, f) in self.found {
            ctx.violation(f.key, f.what, f.case);
        }
        ctx.add_part(part);
    }
}

fn reduce(a: Tally, b: Tally) -> Tally {
    let mut a = a;
    a.merge(b);
    a
}

fn decode_case<V: Variant>(t: &mut Tally, which: &str, b: &[u8]) {
    let site = format!("{}::{}::from_bytes", V::name(), which);
    let r = match which {
        "PublicKey" => catch(|| V::pk_from_bytes(b).map(|_| ())),
        "SecretKey" => catch(|| V::sk_from_bytes(b).map(|_| ())),
        _ => catch(|| V::sig_from_bytes(b).map(|_| ())),
    };
    t.record(&site, r, || json!({"kind":"decode","variant":V::N,"type":which,"hex":hex(b)}));
}

fn pattern(p: usize, len: usize, valid: &[u8]) -> Vec<u8> {
    match p {
        0 => vec![0x00; len],
        1 => vec![0xff; len],
        2 => vec![0x55; len],
        3 => vec![0xaa; len],
        4 => vec![0x80; len],
        _ => (0..len).map(|i| valid[i % valid.len()]).collect(),
    }
}

/// every length x every header byte x 6 body patterns, for the three decoders of one variant
fn length_header_sweep<V: Variant>(ctx: &mut Ctx, valid_pk: &[u8], valid_sk: &[u8], valid_sig: &[u8], step_far: usize) {
    for (which, maxlen, valid) in [("PublicKey", 1800usize, valid_pk), ("SecretKey", 2400, valid_sk), ("Signature", 1400, valid_sig)] {
        let accepting: Vec<usize> = vec![897, 1793, 1281, 2305, 666, 1280];
        let lens: Vec<usize> = (0..=maxlen)
            .filter(|&l| step_far == 1 || l < 64 || l % step_far == 0 || accepting.iter().any(|&a| l + 3 >= a && l <= a + 3))
            .collect();
        let t = lens
            .par_iter()
            .map(|&len| {
                let mut t = Tally::default();
                for p in 0..6 {
                    let mut b = pattern(p, len, valid);
                    if len == 0 {
                        decode_case::<V>(&mut t, which, &b);
                        continue;
                    }
                    for h in 0..=255u8 {
                        b[0] = h;
                        decode_case::<V>(&mut t, which, &b);
                    }
                }
                t
            })
            .reduce(Tally::default, reduce);
        let part = Part::new(
            &format!("lengths_headers_{}_{}", which, V::N),
            &format!("{}::{}::from_bytes on lengths {} x all 256 header bytes x body patterns {{00,FF,55,AA,80,bytes of a valid object repeated}}", V::name(), which, if step_far == 1 { format!("0..={} (all)", maxlen) } else { format!("0..63, every {}th up to {}, and +-3 around every accepting length", step_far, maxlen) }),
        );
        let mut part = part;
        part.exhaustive = true;
        t.into_part(ctx, part, "Ok", "Err");
    }
}

fn set_bits(buf: &mut [u8], pos: usize, width: usize, value: u32) {
    for i in 0..width {
        let bit = (value >> (width - 1 - i)) & 1 == 1;
        let p = pos + i;
        let mask = 1u8 << (7 - (p % 8));
        if bit {
            buf[p / 8] |= mask;
        } else {
            buf[p / 8] &= !mask;
        }
    }
}

fn field_sweeps<V: Variant>(ctx: &mut Ctx, valid_pk: &[u8], valid_sk: &[u8]) {
    let n = V::N;
    // public key: all 2^14 values at fields 0, 1, n-1
    let jobs: Vec<usize> = vec![0, 1, n - 1];
    let t = jobs
        .par_iter()
        .map(|&fld| {
            let mut t = Tally::default();
            let mut b = valid_pk.to_vec();
            for v in 0..(1u32 << 14) {
                set_bits(&mut b, 8 + 14 * fld, 14, v);
                decode_case::<V>(&mut t, "PublicKey", &b);
            }
            t
        })
        .reduce(Tally::default, reduce);
    let mut part = Part::new(&format!("pk_fields_{}", n), "all 2^14 values of public-key fields 0, 1 and n-1 inside an otherwise valid key");
    part.exhaustive = true;
    t.into_part(ctx, part, "Ok", "Err");

    // secret key: all 2^w values at first, second, last field of f, g, F
    let w = keycodec::fg_bits(n);
    let mut jobs = vec![];
    for (poly, width, base) in [(0usize, w, 8usize), (1, w, 8 + n * w), (2, 8, 8 + 2 * n * w)] {
        for fld in [0usize, 1, n - 1] {
            for v in 0..(1u32 << width) {
                jobs.push((poly, width, base + fld * width, v));
            }
        }
    }
    let t = jobs
        .par_iter()
        .map(|&(_poly, width, pos, v)| {
            let mut t = Tally::default();
            let mut b = valid_sk.to_vec();
            set_bits(&mut b, pos, width, v);
            decode_case::<V>(&mut t, "SecretKey", &b);
            t
        })
        .reduce(Tally::default, reduce);
    let mut part = Part::new(&format!("sk_fields_{}", n), "all 2^w values of the first, second and last field of f, g and F inside an otherwise valid secret key (accepted ones rebuild G and the signing tree)");
    part.exhaustive = true;
    t.into_part(ctx, part, "Ok", "Err");

    // reserved pattern at every field; degenerate polynomials
    let mut specials: Vec<(String, Vec<u8>)> = vec![];
    for (width, base, cnt) in [(w, 8usize, 2 * n), (8, 8 + 2 * n * w, n)] {
        for fld in 0..cnt {
            let mut b = valid_sk.to_vec();
            set_bits(&mut b, base + fld * width, width, 1 << (width - 1));
            specials.push((format!("reserved@{}", base + fld * width), b));
        }
    }
    let zero = vec![0i64; n];
    let (f0, g0, cf0) = keycodec::sk_decode(valid_sk, n).expect("valid sk must decode in the reference");
    let mut deg: Vec<(&str, Vec<i64>, Vec<i64>, Vec<i64>)> = vec![
        ("f=0", zero.clone(), g0.clone(), cf0.clone()),
        ("g=0", f0.clone(), zero.clone(), cf0.clone()),
        ("F=0", f0.clone(), g0.clone(), zero.clone()),
        ("all=0", zero.clone(), zero.clone(), zero.clone()),
    ];
    // f = X - a with a a root of X^n + 1 mod q: one vanishing NTT coefficient
    let lim = (1i64 << (w - 1)) - 1;
    let mut roots = 0;
    for a in -lim..=lim {
        if a != 0 && zq::pow(a, n as u64) == 12288 {
            let mut f = zero.clone();
            f[0] = -a;
            f[1] = 1;
            deg.push(("f=X-root", f, g0.clone(), cf0.clone()));
            roots += 1;
        }
    }
    let mut ones = vec![lim; n];
    deg.push(("all=max", ones.clone(), ones.clone(), vec![127; n]));
    for x in ones.iter_mut() {
        *x = -lim;
    }
    deg.push(("all=min", ones.clone(), ones.clone(), vec![-127; n]));
    for (name, f, g, cf) in deg {
        if let Some(b) = keycodec::sk_encode(&f, &g, &cf) {
            specials.push((name.to_string(), b));
        }
    }
    let t = specials
        .par_iter()
        .map(|(_, b)| {
            let mut t = Tally::default();
            decode_case::<V>(&mut t, "SecretKey", b);
            t
        })
        .reduce(Tally::default, reduce);
    let mut part = Part::new(&format!("sk_specials_{}", n), "reserved value -2^(w-1) at every one of the 3n fields; f=0, g=0, F=0, everything 0, f = X - a with a a small root of X^n+1 mod q (vanishing NTT coefficient), all-extreme keys");
    part.set("small_roots_found", json!(roots));
    part.exhaustive = true;
    t.into_part(ctx, part, "Ok", "Err");
}

fn verify_case<V: Variant>(t: &mut Tally, pk: &V::Pk, msg: &[u8], sigbytes: &[u8]) {
    let site = format!("{}::verify", V::name());
    let r = catch(|| match V::sig_from_bytes(sigbytes) {
        Ok(sig) => {
            if V::verify(msg, &sig, pk) {
                Ok(())
            } else {
                Err("false".to_string())
            }
        }
        Err(e) => Err(e),
    });
    t.record(&site, r, || json!({"kind":"verify","variant":V::N,"msg":hex(msg),"sig":hex(sigbytes),"pk":hex(&V::pk_to_bytes(pk))}));
}

fn sig_with_body<V: Variant>(body: &[u8]) -> Vec<u8> {
    let mut s = Vec::with_capacity(41 + body.len());
    s.push(0x30 | keycodec::logn(V::N) | 0x20 | 0x10);
    s[0] = 0x50 | keycodec::logn(V::N);
    s.extend_from_slice(&[0x42u8; 40]);
    s.extend_from_slice(body);
    s
}

fn verify_sweeps<V: Variant>(ctx: &mut Ctx, pk: &V::Pk, dmax: usize, tailbits: usize) {
    let n = V::N;
    let l = crate::refmodel::sig_len(n) - 41;
    let mut jobs = vec![];
    for d in 0..=dmax {
        for r in 1..=3usize {
            jobs.push((d, r));
        }
    }
    let t = jobs
        .par_iter()
        .map(|&(d, r)| {
            let mut t = Tally::default();
            for_each_tail(n, l, d, r, tailbits, |body| verify_case::<V>(&mut t, pk, b"m", &sig_with_body::<V>(body)));
            t
        })
        .reduce(Tally::default, reduce);
    let mut part = Part::new(
        &format!("verify_end_of_buffer_{}", n),
        &format!("verify on signature bodies: every distance d in 0..={} bits between cursor and end of the {}-byte body with r in {{1,2,3}} coefficients left, all 2^min(d,{}) leading tail patterns x remaining bits all-0/all-1", dmax, l, tailbits),
    );
    part.exhaustive = true;
    t.into_part(ctx, part, "true", "false");

    let mut jobs = vec![];
    for align in 0..8usize {
        for last in [false, true] {
            for sign in [false, true] {
                for low in [0u8, 1, 127] {
                    for run in runs() {
                        jobs.push((align, last, sign, low, run));
                    }
                }
            }
        }
    }
    let t = jobs
        .par_iter()
        .map(|&(align, last, sign, low, run)| {
            let mut t = Tally::default();
            if let Some(body) = token_body(n, l, align, last, sign, low, run) {
                for msg in [&b""[..], &b"data1"[..]] {
                    verify_case::<V>(&mut t, pk, msg, &sig_with_body::<V>(&body));
                }
                let mut b2 = body.clone();
                b2[l - 1] |= 1;
                verify_case::<V>(&mut t, pk, b"m", &sig_with_body::<V>(&b2));
            }
            t
        })
        .reduce(Tally::default, reduce);
    let mut part = Part::new(
        &format!("verify_run_tokens_{}", n),
        "verify on bodies carrying a unary run in {0..=130, 255, 256, 257, 511, 512, 513} on a middle / the last coefficient x sign x low in {0,1,127} x 8 alignments (where it fits), also with the last padding bit set",
    );
    part.exhaustive = true;
    t.into_part(ctx, part, "true", "false");

    // uniform fill bodies and all-equal coefficient bodies
    let mut bodies: Vec<Vec<u8>> = (0..=255u8).map(|b| vec![b; l]).collect();
    for v in [0i64, 1, -1, 127, -127, 128, -128, 200, -200] {
        let mut bits = super::gen_codec::Bits::default();
        for _ in 0..n {
            bits.push_value(v);
        }
        if bits.len() <= 8 * l {
            bodies.push(bits.to_bytes(l, false));
        }
    }
    let t = bodies
        .par_iter()
        .map(|body| {
            let mut t = Tally::default();
            verify_case::<V>(&mut t, pk, b"", &sig_with_body::<V>(body));
            t
        })
        .reduce(Tally::default, reduce);
    let mut part = Part::new(&format!("verify_uniform_{}", n), "verify on bodies filled with each of the 256 byte values and on bodies encoding n equal coefficients in {0,+-1,+-127,+-128,+-200}");
    part.exhaustive = true;
    t.into_part(ctx, part, "true", "false");
}

/// verify on (public key, signature) pairs engineered so that the spectrum verify has to invert carries an extreme
/// pattern: s2 = 1 and h = c - t with NTT(t) equal to q-1 on an aligned block of slots and 0 elsewhere (blocks of
/// every power-of-two size at every offset; also the complement). The inverse transform then sees the largest
/// possible partial sums next to zeros (lazy reductions, narrow accumulators); the verdict is a plain false.
fn verify_extreme_spectra<V: Variant>(ctx: &mut Ctx) {
    let n = V::N;
    let salt = [0x42u8; 40];
    let msg = b"extreme spectrum";
    let mut sm = salt.to_vec();
    sm.extend_from_slice(msg);
    let c = crate::refmodel::keccak::hash_to_point(&sm, n, None);
    let slot_root: Vec<i64> = super::c11::slot_roots(n);
    let inv = crate::refmodel::zq::inverse_table();
    let ninv = inv[(n as i64 % 12289) as usize];
    let ipow: Vec<Vec<i64>> = slot_root.iter().map(|&w| { let wi = inv[w as usize]; let mut v = vec![1i64; n]; for j in 1..n { v[j] = v[j - 1] * wi % 12289; } v }).collect();
    let mut one = vec![0i64; n];
    one[0] = 1;
    let body = crate::refmodel::codec::compress(&one, crate::refmodel::sig_len(n) - 41).unwrap();
    let mut jobs: Vec<(usize, usize, bool)> = vec![];
    let mut size = 1;
    while size <= n {
        for off in (0..n).step_by(size) {
            if size >= 8 || off < 16 {
                jobs.push((off, size, false));
                if size >= 16 && size < n {
                    jobs.push((off, size, true));
                }
            }
        }
        size *= 2;
    }
    let t = jobs
        .par_iter()
        .map(|&(off, size, complement)| {
            let mut t = Tally::default();
            let inside = |k: usize| (k >= off && k < off + size) != complement;
            // t = INTT(T), T = q-1 on the chosen slots
            let tt: Vec<i64> = (0..n).map(|j| { let mut acc = 0i64; for k in 0..n { if inside(k) { acc += 12288 * ipow[k][j] % 12289; } } acc % 12289 * ninv % 12289 }).collect();
            let h: Vec<i64> = (0..n).map(|j| (c[j] - tt[j]).rem_euclid(12289)).collect();
            let pkb = keycodec::pk_encode(&h);
            let mut sigb = vec![0x50 | keycodec::logn(n)];
            sigb.extend_from_slice(&salt);
            sigb.extend_from_slice(&body);
            match V::pk_from_bytes(&pkb) {
                Ok(pk) => verify_case::<V>(&mut t, &pk, msg, &sigb),
                Err(_) => {}
            }
            t
        })
        .reduce(Tally::default, reduce);
    let mut part = Part::new(&format!("verify_extreme_spectra_{}", n), "verify with s2 = 1 and a public key chosen so that the spectrum of s1 = c - s2 h is q-1 on one aligned block of transform slots (every power-of-two size >= 8 at every offset, and the complements) and 0 elsewhere: returns a boolean, never panics");
    part.exhaustive = true;
    t.into_part(ctx, part, "true", "false");
}

/// The same steering in the coefficient domain: s2 = 1 and h = c - v make s1 = v exactly. v takes one extreme
/// value (the largest magnitudes +-6144 of the balanced lift, q-1, 1) on a support {all, i = r mod m for
/// m in 2..=64, either half} and 0 elsewhere: the squared norm then reaches its maximum n * 6144^2 overall and on
/// every stride class (lane-wise or blocked accumulators in a type too narrow for one variant).
fn verify_extreme_s1<V: Variant>(ctx: &mut Ctx) {
    let n = V::N;
    let salt = [0x43u8; 40];
    let msg = b"extreme s1";
    let mut sm = salt.to_vec();
    sm.extend_from_slice(msg);
    let c = crate::refmodel::keccak::hash_to_point(&sm, n, None);
    let mut one = vec![0i64; n];
    one[0] = 1;
    let body = crate::refmodel::codec::compress(&one, crate::refmodel::sig_len(n) - 41).unwrap();
    // supports as (modulus, residue); modulus 1 = everything; (0, 0|1) = lower / upper half
    let mut supports: Vec<(usize, usize)> = vec![(1, 0), (0, 0), (0, 1)];
    let mut m = 2;
    while m <= 64 {
        for r in 0..m {
            supports.push((m, r));
        }
        m *= 2;
    }
    let mut jobs = vec![];
    for &val in &[6144i64, 6145, 12288, 1, 6143, 6146] {
        for &sup in &supports {
            jobs.push((val, sup));
        }
    }
    let t = jobs
        .par_iter()
        .map(|&(val, (m, r))| {
            let mut t = Tally::default();
            let inside = |i: usize| match m {
                0 => (i >= n / 2) == (r == 1),
                _ => i % m == r,
            };
            let h: Vec<i64> = (0..n).map(|i| (c[i] - if inside(i) { val } else { 0 }).rem_euclid(12289)).collect();
            let pkb = keycodec::pk_encode(&h);
            let mut sigb = vec![0x50 | keycodec::logn(n)];
            sigb.extend_from_slice(&salt);
            sigb.extend_from_slice(&body);
            if let Ok(pk) = V::pk_from_bytes(&pkb) {
                verify_case::<V>(&mut t, &pk, msg, &sigb);
            }
            t
        })
        .reduce(Tally::default, reduce);
    let mut part = Part::new(&format!("verify_extreme_s1_{}", n), "verify with s2 = 1 and a public key h = c - v, so that s1 = v: v is one of {6144, 6145 = -6144, q-1, 1, 6143, 6146} on a support {every index, i = r mod m for m in {2,4,...,64} and every r, lower half, upper half} and 0 elsewhere (the norm accumulators at their maximum, overall and per stride class): returns a boolean, never panics");
    part.exhaustive = true;
    t.into_part(ctx, part, "true", "false");
}

/// verify under every scripted shape of HashToPoint's XOF stream (the message decides the stream; the hook lets
/// the harness choose it): a boolean, never a panic
fn verify_under_scripted_hash<V: Variant>(ctx: &mut Ctx, pk: &V::Pk, valid_sig: &[u8], tier: Tier) {
    let n = V::N;
    let fam = super::c14::scripted_streams(n, tier.thorough());
    let zero_body = vec![0u8; valid_sig.len() - 41];
    let t = fam
        .par_iter()
        .map(|(name, chunks)| {
            let mut t = Tally::default();
            let prefix: Vec<u8> = chunks.iter().flat_map(|v| [(v >> 8) as u8, (v & 0xff) as u8]).collect();
            for sigbytes in [valid_sig.to_vec(), sig_with_body::<V>(&zero_body)] {
                falcon_rust::verif_hooks::install_xof_prefix(prefix.clone());
                let site = format!("{}::verify", V::name());
                let r = catch(|| match V::sig_from_bytes(&sigbytes) {
                    Ok(sig) => {
                        if V::verify(b"scripted", &sig, pk) {
                            Ok(())
                        } else {
                            Err("false".to_string())
                        }
                    }
                    Err(e) => Err(e),
                });
                falcon_rust::verif_hooks::uninstall_xof_prefix();
                t.record(&site, r, || json!({"kind":"verify-stream","variant":n,"stream":name}));
            }
            t
        })
        .reduce(Tally::default, reduce);
    let mut part = Part::new(&format!("verify_under_scripted_hash_stream_{}", n), "verify (an honest signature and the all-zero body) while HashToPoint's XOF reader delivers each scripted chunk stream of C14's family first: runs of up to 2048 rejected chunks at four positions, many rejected chunks spread out, every m-th chunk rejected, constant streams");
    part.exhaustive = true;
    t.into_part(ctx, part, "true", "false");
}

fn one_variant<V: Variant>(ctx: &mut Ctx, tier: Tier) {
    let (sk, pk) = crate::api::key::<V>(0);
    let valid_pk = V::pk_to_bytes(&pk);
    let valid_sk = V::sk_to_bytes(&sk);
    let valid_sig = V::sig_to_bytes(&V::sign(b"data1", &sk));
    length_header_sweep::<V>(ctx, &valid_pk, &valid_sk, &valid_sig, if tier.thorough() { 1 } else { 7 });
    field_sweeps::<V>(ctx, &valid_pk, &valid_sk);
    if tier.thorough() {
        verify_sweeps::<V>(ctx, &pk, 40, 16);
    } else {
        verify_sweeps::<V>(ctx, &pk, 24, 10);
    }
    verify_under_scripted_hash::<V>(ctx, &pk, &valid_sig, tier);
    verify_extreme_spectra::<V>(ctx);
    verify_extreme_s1::<V>(ctx);
    ctx.sample(json!({"variant": V::N, "decoder":"Signature::from_bytes","len":valid_sig.len(),"header":format!("{:02x}", valid_sig[0]),"result":"Ok"}));
}

pub fn run(tier: Tier) {
    let mut ctx = Ctx::new("C03", tier);
    if ctx.build != "checked" {
        crate::ctx::machinery_error("C03 must run in the overflow-checked build");
    }
    one_variant::<V512>(&mut ctx, tier);
    one_variant::<V1024>(&mut ctx, tier);
    ctx.assume("build has overflow-checks = true and debug-assertions = true (profile.release of the harness), opt-level 3");
    ctx.assume("decompress is a streaming automaton whose behaviour on a coefficient depends on (cursor mod 8, bits left, last/non-last) and the local window; all combinations are enumerated at the production sizes");
    ctx.finish();
}

pub fn replay(case: &Value) -> Result<Option<String>, String> {
    let kind = case.get("kind").and_then(|k| k.as_str()).ok_or("no kind")?;
    let variant = case.get("variant").and_then(|x| x.as_u64()).ok_or("variant")?;
    let mut t = Tally::default();
    let hx = |k: &str| case.get(k).and_then(|x| x.as_str()).map(unhex).ok_or(format!("missing {}", k));
    match kind {
        "decode" => {
            let ty = case.get("type").and_then(|k| k.as_str()).ok_or("type")?.to_string();
            let b = hx("hex")?;
            if variant == 512 {
                decode_case::<V512>(&mut t, &ty, &b)
            } else {
                decode_case::<V1024>(&mut t, &ty, &b)
            }
        }
        "verify" => {
            let (msg, sig, pkb) = (hx("msg")?, hx("sig")?, hx("pk")?);
            if variant == 512 {
                let pk = V512::pk_from_bytes(&pkb)?;
                verify_case::<V512>(&mut t, &pk, &msg, &sig)
            } else {
                let pk = V1024::pk_from_bytes(&pkb)?;
                verify_case::<V1024>(&mut t, &pk, &msg, &sig)
            }
        }
        "verify-stream" => return Err("re-run ./vf check C03 (the stream family is enumerated deterministically)".into()),
        _ => return Err(format!("unknown kind {}", kind)),
    }
    Ok(t.found.into_iter().next().map(|(_, f)| f.what))
}

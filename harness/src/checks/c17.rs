//! C17 - Babai size reduction preserves the NTRU equation; i32 and big-integer versions agree.
//! E1 over a multiplier alphabet k applied to real and structured (f, g, F0, G0) for every n.

use super::{found, Found};
use crate::ctx::{catch, Ctx, Part, Tier};
use crate::refmodel::{gso, poly};
use falcon_rust::math::{babai_reduce_bigint, babai_reduce_i32, ntru_gen};
use falcon_rust::polynomial::Polynomial;
use num::BigInt;
use rand::SeedableRng;
use rayon::prelude::*;
use serde_json::{json, Value};
use std::collections::BTreeMap;

type V = Vec<i64>;

#[derive(Clone)]
struct Base {
    f: V,
    g: V,
    cf: V,
    cg: V,
    origin: String,
}

fn to_i32(v: &[i64]) -> Polynomial<i32> {
    Polynomial::new(v.iter().map(|&x| x as i32).collect())
}
fn to_big(v: &[i64]) -> Polynomial<BigInt> {
    Polynomial::new(v.iter().map(|&x| BigInt::from(x)).collect())
}

/// f*G - g*F over Z
fn lhs(f: &[i64], g: &[i64], cf: &[i64], cg: &[i64]) -> Vec<i128> {
    gso::ntru_lhs(f, g, cf, cg)
}

/// k with k*f = a exactly, via floating division and exact verification; None if a is not an
/// integer-polynomial multiple of f
fn exact_quotient(a: &[i64], f: &[i64]) -> Option<V> {
    let n = a.len();
    // naive DFT at the roots of X^n + 1
    let roots: Vec<(f64, f64)> = (0..n)
        .map(|k| {
            let ang = std::f64::consts::PI * ((2 * k + 1) as f64) / (n as f64);
            (ang.cos(), ang.sin())
        })
        .collect();
    let eval = |p: &[i64]| -> Vec<(f64, f64)> {
        roots
            .iter()
            .map(|&(c, s)| {
                let (mut re, mut im) = (0.0f64, 0.0f64);
                for &coef in p.iter().rev() {
                    let (nr, ni) = (re * c - im * s + coef as f64, re * s + im * c);
                    re = nr;
                    im = ni;
                }
                (re, im)
            })
            .collect()
    };
    let ea = eval(a);
    let ef = eval(f);
    let q: Vec<(f64, f64)> = ea
        .iter()
        .zip(ef.iter())
        .map(|(&(ar, ai), &(fr, fi))| {
            let d = fr * fr + fi * fi;
            ((ar * fr + ai * fi) / d, (ai * fr - ar * fi) / d)
        })
        .collect();
    // inverse: k_j = 1/n sum_k q_k w_k^-j
    let mut k = vec![0i64; n];
    for j in 0..n {
        let mut acc = 0.0f64;
        for (idx, &(c, s)) in roots.iter().enumerate() {
            // w^-j = (cos(j*ang), -sin(j*ang)); recompute angle to keep precision
            let ang = std::f64::consts::PI * ((2 * idx + 1) as f64) / (n as f64) * (j as f64);
            let _ = (c, s);
            acc += q[idx].0 * ang.cos() + q[idx].1 * ang.sin();
        }
        let v = acc / (n as f64);
        if !v.is_finite() {
            return None;
        }
        k[j] = v.round() as i64;
    }
    let prod = poly::mul_z(&k, f);
    if prod.iter().zip(a.iter()).all(|(p, &x)| *p == x as i128) {
        Some(k)
    } else {
        None
    }
}

struct Outcome {
    reduced: (V, V),
    steps_changed: bool,
}

fn judge(b: &Base, capf: &[i64], capg: &[i64], check_multiple: bool) -> Result<Outcome, (String, String)> {
    let n = b.f.len();
    let run_i32 = |cf: &[i64], cg: &[i64]| {
        let (f, g) = (to_i32(&b.f), to_i32(&b.g));
        let (mut x, mut y) = (to_i32(cf), to_i32(cg));
        catch(move || {
            let r = babai_reduce_i32(&f, &g, &mut x, &mut y);
            (r.is_ok(), x.coefficients.iter().map(|&v| v as i64).collect::<V>(), y.coefficients.iter().map(|&v| v as i64).collect::<V>())
        })
    };
    let run_big = |cf: &[i64], cg: &[i64]| {
        let (f, g) = (to_big(&b.f), to_big(&b.g));
        let (mut x, mut y) = (to_big(cf), to_big(cg));
        catch(move || {
            let r = babai_reduce_bigint(&f, &g, &mut x, &mut y);
            let conv = |p: &Polynomial<BigInt>| -> V { p.coefficients.iter().map(|v| i64::try_from(v.clone()).unwrap_or(i64::MAX)).collect() };
            // the big-integer version may drop trailing zero coefficients? keep length n
            let mut xv = conv(&x);
            let mut yv = conv(&y);
            xv.resize(xv.len().max(1), 0);
            yv.resize(yv.len().max(1), 0);
            (r.is_ok(), xv, yv)
        })
    };
    let a = run_i32(capf, capg);
    let c = run_big(capf, capg);
    let (a, c) = match (a, c) {
        (Ok(a), Ok(c)) => (a, c),
        (Err(e), Ok(_)) => return Err(("i32-panics".into(), format!("babai_reduce_i32 panicked ({}) where babai_reduce_bigint returned, n={}", e, n))),
        (Ok(_), Err(e)) => return Err(("bigint-panics".into(), format!("babai_reduce_bigint panicked ({}) where babai_reduce_i32 returned, n={}", e, n))),
        (Err(e1), Err(e2)) => return Err(("both-panic".into(), format!("both reductions panicked ({} / {}), n={}", e1, e2, n))),
    };
    let mut cx = c.1.clone();
    let mut cy = c.2.clone();
    cx.resize(n, 0);
    cy.resize(n, 0);
    if a.0 != c.0 {
        return Err(("ok-err-differ".into(), format!("babai_reduce_i32 is {} but babai_reduce_bigint is {}, n={}", if a.0 { "Ok" } else { "Err" }, if c.0 { "Ok" } else { "Err" }, n)));
    }
    if !a.0 {
        return Ok(Outcome { reduced: (a.1, a.2), steps_changed: false });
    }
    if a.1 != cx || a.2 != cy {
        let k = (0..n).find(|&k| a.1[k] != cx[k] || a.2[k] != cy[k]).unwrap_or(0);
        return Err(("versions-differ".into(), format!("n={}: i32 and big-integer reductions differ at coefficient {} (F' {} vs {}, G' {} vs {})", n, k, a.1[k], cx[k], a.2[k], cy[k])));
    }
    // equation preserved
    if lhs(&b.f, &b.g, &a.1, &a.2) != lhs(&b.f, &b.g, capf, capg) {
        return Err(("equation-changed".into(), format!("n={}: f*G' - g*F' differs from f*G - g*F after reduction", n)));
    }
    // idempotent
    match run_i32(&a.1, &a.2) {
        Ok(second) => {
            if !second.0 || second.1 != a.1 || second.2 != a.2 {
                return Err(("not-idempotent".into(), format!("n={}: a second reduction changes the reduced pair", n)));
            }
        }
        Err(e) => return Err(("i32-panics-second".into(), format!("n={}: second reduction panicked: {}", n, e))),
    }
    // difference is a multiple of (f, g)
    if check_multiple {
        let df: V = (0..n).map(|k| capf[k] - a.1[k]).collect();
        let dg: V = (0..n).map(|k| capg[k] - a.2[k]).collect();
        match exact_quotient(&df, &b.f) {
            Some(k) => {
                let kg = poly::mul_z(&k, &b.g);
                if !kg.iter().zip(dg.iter()).all(|(p, &x)| *p == x as i128) {
                    return Err(("not-a-multiple".into(), format!("n={}: (F-F', G-G') is not k*(f,g) for the k with k*f = F-F'", n)));
                }
            }
            None => return Err(("not-a-multiple".into(), format!("n={}: F-F' is not an integer-polynomial multiple of f", n))),
        }
    }
    let changed = a.1 != capf || a.2 != capg;
    Ok(Outcome { reduced: (a.1, a.2), steps_changed: changed })
}

fn bases(n: usize, seeds: u64) -> Vec<Base> {
    let mut out = vec![];
    // real key material
    for s in 0..seeds {
        let mut seed = [0u8; 32];
        seed[0] = s as u8;
        seed[1] = (n.trailing_zeros()) as u8;
        // horizon: at most ~300 candidates' worth of draws (key generation is a rejection loop; with a broken
        // reduction it may never accept)
        let r = catch(move || {
            let mut rng = crate::envrng::Bounded::new(rand::rngs::StdRng::from_seed(seed), 300 * 8192 * 40);
            ntru_gen(n, &mut rng)
        });
        if let Ok((f, g, cf, cg)) = r {
            let c = |p: &Polynomial<i16>| -> V { p.coefficients.iter().map(|&x| x as i64).collect() };
            let (f, g, cf, cg) = (c(&f), c(&g), c(&cf), c(&cg));
            if gso::ntru_holds(&f, &g, &cf, &cg) {
                out.push(Base { f, g, cf, cg, origin: format!("ntru_gen(n={},seed byte {})", n, s) });
            }
        }
    }
    // structured small (f, g) with arbitrary small (F0, G0): the property quantifies over every pair
    for t in 0..2i64 {
        let f: V = (0..n as i64).map(|i| ((i * 5 + 3 * t + 1) % 9) - 4 + if i == 0 { 7 } else { 0 }).collect();
        let g: V = (0..n as i64).map(|i| ((i * 7 + t + 2) % 7) - 3).collect();
        let cf: V = (0..n as i64).map(|i| ((i * 11 + t) % 41) - 20).collect();
        let cg: V = (0..n as i64).map(|i| ((i * 13 + 5 * t) % 37) - 18).collect();
        out.push(Base { f, g, cf, cg, origin: format!("structured(n={},t={})", n, t) });
    }
    out
}

fn multipliers(n: usize, all_positions: bool) -> Vec<(String, V)> {
    let mut ks: Vec<(String, V)> = vec![("0".into(), vec![0; n])];
    let js: Vec<usize> = if all_positions {
        (0..n).collect()
    } else {
        let mut v = vec![0, 1 % n, n / 2, n - 1];
        v.sort();
        v.dedup();
        v
    };
    for &j in &js {
        for (name, c) in [("1", 1i64), ("-1", -1), ("2^4", 16), ("-2^4", -16), ("2^8", 256), ("2^12", 4096), ("-2^12", -4096), ("2^16", 65536), ("2^18", 262144)] {
            let mut k = vec![0i64; n];
            k[j] = c;
            ks.push((format!("{}*X^{}", name, j), k));
        }
        let i = (j + n / 2 + 1) % n;
        if i != j {
            for sgn in [1i64, -1] {
                let mut k = vec![0i64; n];
                k[j] = 1;
                k[i] = sgn;
                ks.push((format!("X^{}{}X^{}", j, if sgn > 0 { "+" } else { "-" }, i), k));
            }
        }
    }
    for scale in [1i64, 100, 10000] {
        let k: V = (0..n as i64).map(|t| (((7 * t + 3) % 11) - 5) * scale).collect();
        ks.push((format!("dense*{}", scale), k));
    }
    ks
}

#[derive(Default)]
struct Tally {
    cases: u64,
    calls: u64,
    changed: u64,
    skipped_too_big: u64,
    outcomes: BTreeMap<String, u64>,
    found: BTreeMap<String, Found>,
    nviol: u64,
}

fn reduce(mut a: Tally, b: Tally) -> Tally {
    a.cases += b.cases;
    a.calls += b.calls;
    a.changed += b.changed;
    a.skipped_too_big += b.skipped_too_big;
    a.nviol += b.nviol;
    for (k, v) in b.outcomes {
        *a.outcomes.entry(k).or_insert(0) += v;
    }
    for (k, v) in b.found {
        a.found.entry(k).or_insert(v);
    }
    a
}

fn run_case(t: &mut Tally, b: &Base, kname: &str, k: &[i64], tag: &str) {
    let n = b.f.len();
    let kf = poly::mul_z(k, &b.f);
    let kg = poly::mul_z(k, &b.g);
    let capf: Vec<i128> = (0..n).map(|i| b.cf[i] as i128 + kf[i]).collect();
    let capg: Vec<i128> = (0..n).map(|i| b.cg[i] as i128 + kg[i]).collect();
    if capf.iter().chain(capg.iter()).any(|x| x.abs() >= (1 << 24)) {
        t.skipped_too_big += 1;
        return;
    }
    let capf: V = capf.iter().map(|&x| x as i64).collect();
    let capg: V = capg.iter().map(|&x| x as i64).collect();
    t.cases += 1;
    t.calls += 3;
    match judge(b, &capf, &capg, true) {
        Ok(o) => {
            if o.steps_changed {
                t.changed += 1;
            }
            let m = o.reduced.0.iter().chain(o.reduced.1.iter()).map(|x| x.abs()).max().unwrap_or(0);
            *t.outcomes.entry(format!("n={} reduced max|coef| < 2^{}", n, 64 - (m as u64).leading_zeros())).or_insert(0) += 1;
        }
        Err((class, what)) => {
            t.nviol += 1;
            let key = format!("babai:{}:{}", class, tag);
            let what = format!("{} [{} , k = {}]", what, b.origin, kname);
            t.found.entry(key.clone()).or_insert_with(|| found(key, what, json!({"kind":"babai","f":b.f,"g":b.g,"F":capf,"G":capg})));
        }
    }
}

const P30: u64 = 1073754113; // the 30-bit prime of the multi-modular reduction

fn powmod(mut b: u64, mut e: u64) -> u64 {
    let mut acc = 1u64;
    b %= P30;
    while e > 0 {
        if e & 1 == 1 {
            acc = acc * b % P30;
        }
        b = b * b % P30;
        e >>= 1;
    }
    acc
}

fn to_res(x: i64) -> u32 {
    x.rem_euclid(P30 as i64) as u32
}

/// The 30-bit NTT as babai_reduce_i32 uses it, checked as a component: slot roots, transforms of scaled
/// basis vectors (including small negatives, which are residues next to the modulus), round trips, and the
/// products x^j * f for every j (what one reduction step computes for a monomial multiplier).
fn u32_ntt_component(n: usize) -> (u64, Vec<Found>) {
    use falcon_rust::verif_hooks as fh;
    let mut out: Vec<Found> = vec![];
    let mut cases = 0u64;
    let mut push = |out: &mut Vec<Found>, class: &str, what: String| {
        if out.len() < 4 {
            out.push(found(format!("u32-ntt:n={}:{}", n, class), what, json!({"kind":"u32ntt","n":n})));
        }
    };
    let mut x = vec![0u32; n];
    x[1 % n] = 1;
    let roots: Vec<u64> = match catch(|| fh::u32field_fft(&x)) {
        Ok(r) => r.iter().map(|&v| v as u64).collect(),
        Err(e) => {
            push(&mut out, "panic", format!("n={}: the 30-bit NTT panicked on X: {}", n, e));
            return (1, out);
        }
    };
    let mut seen = std::collections::BTreeSet::new();
    for &w in &roots {
        cases += 1;
        if w >= P30 || powmod(w, n as u64) != P30 - 1 || !seen.insert(w) {
            push(&mut out, "roots", format!("n={}: ntt(X) does not list n distinct roots of X^n+1 modulo the 30-bit prime", n));
            break;
        }
    }
    let consts: [i64; 7] = [1, -1, -2, 2, 1 << 20, -(1 << 20), (1 << 28) - 3];
    for j in 0..n {
        for &c in &consts {
            if n > 128 && (c == 2 || c == (1 << 20)) {
                continue;
            }
            cases += 1;
            let mut v = vec![0u32; n];
            v[j] = to_res(c);
            let f = match catch(|| fh::u32field_fft(&v)) {
                Ok(f) => f,
                Err(e) => {
                    push(&mut out, "panic", format!("n={}: ntt({} x^{}) panicked: {}", n, c, j, e));
                    continue;
                }
            };
            let cres = to_res(c) as u64;
            let step = if n > 256 { 7 } else { 1 };
            if (0..n).step_by(step).any(|k| f[k] as u64 != cres * powmod(roots[k], j as u64) % P30) {
                push(&mut out, "forward", format!("n={}: ntt({} x^{}) differs from c * w_k^j", n, c, j));
            }
            match catch(|| fh::u32field_ifft(&f)) {
                Ok(back) if back == v => {}
                Ok(_) => push(&mut out, "roundtrip", format!("n={}: intt(ntt({} x^{})) is not {} x^{} (30-bit NTT)", n, c, j, c, j)),
                Err(e) => push(&mut out, "panic", format!("n={}: intt panicked on ntt({} x^{}): {}", n, c, j, e)),
            }
        }
    }
    // products (+-x^j) * f for small dense f: one reduction step with a monomial multiplier
    for t in 0..2i64 {
        let f: Vec<i64> = (0..n as i64).map(|i| ((i * 5 + 3 * t + 1) % 9) - 4 + if i % 17 == 0 { 0 } else { 0 }).collect();
        let fr: Vec<u32> = f.iter().map(|&v| to_res(v)).collect();
        let ff = match catch(|| fh::u32field_fft(&fr)) {
            Ok(v) => v,
            Err(_) => continue,
        };
        for j in 0..n {
            for sgn in [1i64, -1] {
                cases += 1;
                let mut k = vec![0u32; n];
                k[j] = to_res(sgn);
                let want: Vec<u32> = poly::shift_z(&f, j).iter().map(|&v| to_res(sgn * v)).collect();
                let got = catch(|| fh::u32field_ifft(&fh::u32field_hadamard_mul(&fh::u32field_fft(&k), &ff)));
                match got {
                    Ok(g) if g == want => {}
                    Ok(_) => push(&mut out, "product", format!("n={}: intt(ntt({} x^{}) .* ntt(f)) is not {} x^{} * f for a small dense f (30-bit NTT)", n, sgn, j, sgn, j)),
                    Err(e) => push(&mut out, "panic", format!("n={}: 30-bit NTT product panicked at x^{}: {}", n, j, e)),
                }
            }
        }
    }
    (cases, out)
}

/// intermediate-state sparsity for the 30-bit NTT (see C11): inputs whose residues modulo the partial factors
/// X^m - zeta have each half-block zero or dense, forward against the defining sums, inverse back to the input
/// Scalar arithmetic of the 30-bit field: an alphabet of values at the seams of machine words and of the modulus
/// against itself, and the alphabet against every 16-bit value and every value within 2^12 of the modulus.
/// Every result must be the canonical representative of the exact result (a non-canonical one survives a
/// multiplication but breaks the next negation or subtraction of the transform).
fn u32_scalar_alphabet() -> Vec<u32> {
    let p = P30 as u32;
    let mut a: Vec<u32> = vec![0, 1, 2, 3, 5, 12289, p - 1, p - 2, p - 3, (p - 1) / 2, (p + 1) / 2, (p - 1) / 2 - 1, (p + 1) / 2 + 1];
    for k in [7u32, 8, 12, 14, 15, 16, 17, 20, 24, 28, 29, 30] {
        for d in [-1i64, 0, 1] {
            let v = (1i64 << k) + d;
            if v >= 0 && (v as u64) < P30 {
                a.push(v as u32);
                a.push(p - v as u32 % p);
            }
        }
    }
    // around sqrt(p) and sqrt(2^32): products just below / above the modulus and the word size
    let r = (P30 as f64).sqrt() as u32;
    for d in 0..3u32 {
        a.push(r - d);
        a.push(r + 1 + d);
        a.push(65535 - d);
    }
    a.retain(|&v| v < p);
    a.sort();
    a.dedup();
    a
}

fn u32_scalar_ops() -> (u64, Vec<Found>) {
    use falcon_rust::verif_hooks as fh;
    let a = u32_scalar_alphabet();
    let p = P30;
    let mut others: Vec<u32> = (0..=65536u32).collect();
    others.extend((1..=4096u32).map(|d| p as u32 - d));
    others.extend(a.iter().copied());
    let res: Vec<(u64, Option<Found>)> = a
        .par_iter()
        .map(|&x| {
            let mut count = 0u64;
            let mut bad: Option<Found> = None;
            for &y in &others {
                for (name, want) in [("mul", x as u64 * y as u64 % p), ("add", (x as u64 + y as u64) % p), ("sub", (x as u64 + p - y as u64) % p), ("rsub", (y as u64 + p - x as u64) % p)] {
                    count += 1;
                    if bad.is_some() {
                        continue;
                    }
                    let got = catch(|| match name {
                        "mul" => fh::u32field_mul(x, y),
                        "add" => fh::u32field_add(x, y),
                        "sub" => fh::u32field_sub(x, y),
                        _ => fh::u32field_sub(y, x),
                    });
                    let (l, r) = if name == "rsub" { (y, x) } else { (x, y) };
                    let op = if name == "rsub" { "sub" } else { name };
                    match got {
                        Ok(g) if g as u64 == want => {}
                        Ok(g) if g as u64 % p == want => {
                            // same residue class but not the canonical representative: only wrong if the value then
                            // misbehaves where the reduction uses it (negation by subtraction, balanced lift, product)
                            let bal = |w: u64| if w > p / 2 { w as i64 - p as i64 } else { w as i64 };
                            let follow = catch(|| (fh::u32field_sub(0, g) as u64 % p, fh::u32field_balanced(g) as i64, fh::u32field_mul(g, 1) as u64 % p, fh::u32field_add(g, 0) as u64 % p));
                            let expect = ((p - want) % p, bal(want), want, want);
                            match follow {
                                Ok(f) if f == expect => {}
                                Ok(f) => bad = Some(found(format!("u32-scalar:{}", op), format!("30-bit field: {}({}, {}) = {} is not reduced (canonical: {}) and is then mishandled: (0 - r, balanced(r), r * 1, r + 0) = {:?}, expected {:?}", op, l, r, g, want, f, expect), json!({"kind":"u32scalar"}))),
                                Err(e) => bad = Some(found(format!("u32-scalar:{}", op), format!("30-bit field: {}({}, {}) = {} is not reduced (canonical: {}) and the next operation on it panics: {}", op, l, r, g, want, e), json!({"kind":"u32scalar"}))),
                            }
                        }
                        Ok(g) => bad = Some(found(format!("u32-scalar:{}", op), format!("30-bit field: {}({}, {}) = {} but the result is {}", op, l, r, g, want), json!({"kind":"u32scalar"}))),
                        Err(e) => bad = Some(found(format!("u32-scalar:{}:panic", op), format!("30-bit field: {}({}, {}) panicked: {}", op, l, r, e), json!({"kind":"u32scalar"}))),
                    }
                }
            }
            (count, bad)
        })
        .collect();
    let mut count = 0;
    let mut out = vec![];
    for (c, b) in res {
        count += c;
        out.extend(b);
    }
    // new / balanced_value inside the property's domain (|v| < 2^24 for the inputs; quotients stay below 2^29):
    // the seams of 8-, 16- and 24-bit values. (Outside it, new(-p) = p and new(i32::MIN) overflows: not claimed.)
    for v in [0i32, 1, -1, 2, -2, 127, 128, -128, -129, 255, 256, 32767, 32768, -32768, -32769, 65535, 65536, -65535, -65536, -65537, (1 << 24) - 1, 1 << 24, -(1 << 24), -(1 << 24) + 1, (1 << 29) - 1, -(1 << 29) + 1] {
        count += 1;
        let want = (v as i64).rem_euclid(p as i64) as u64;
        match catch(|| fh::u32field_new(v)) {
            Ok(g) if g as u64 == want => {
                let bal = if want > p / 2 { want as i64 - p as i64 } else { want as i64 };
                match catch(|| fh::u32field_balanced(g)) {
                    Ok(b) if b as i64 == bal => {}
                    Ok(b) => out.push(found("u32-scalar:balanced", format!("30-bit field: balanced_value({}) = {} but the representative of least magnitude is {}", g, b, bal), json!({"kind":"u32scalar"}))),
                    Err(e) => out.push(found("u32-scalar:balanced:panic", format!("30-bit field: balanced_value({}) panicked: {}", g, e), json!({"kind":"u32scalar"}))),
                }
            }
            Ok(g) => out.push(found("u32-scalar:new", format!("30-bit field: new({}) = {} but the canonical residue is {}", v, g, want), json!({"kind":"u32scalar"}))),
            Err(e) => out.push(found("u32-scalar:new:panic", format!("30-bit field: new({}) panicked: {}", v, e), json!({"kind":"u32scalar"}))),
        }
    }
    (count, out)
}

fn u32_sparsity(n: usize) -> (u64, Vec<Found>) {
    use falcon_rust::verif_hooks as fh;
    let mut out: Vec<Found> = vec![];
    if n < 8 {
        return (0, out);
    }
    let mut x = vec![0u32; n];
    x[1] = 1;
    let roots: Vec<u64> = match catch(|| fh::u32field_fft(&x)) {
        Ok(r) => r.iter().map(|&v| v as u64).collect(),
        Err(_) => return (0, out),
    };
    let psi = roots[0];
    let inv = |a: u64| powmod(a, P30 - 2);
    let pow: Vec<Vec<u64>> = roots.iter().map(|&w| { let mut v = vec![1u64; n]; for j in 1..n { v[j] = v[j - 1] * w % P30; } v }).collect();
    let mut levels: Vec<usize> = vec![n / 2, n / 4, 8, 16];
    levels.retain(|&m| m >= 2 && m < n);
    levels.sort();
    levels.dedup();
    let mut jobs: Vec<(usize, Vec<bool>)> = vec![];
    for &m in &levels {
        for p in super::c11::sparsity_patterns(2 * (n / m)) {
            jobs.push((m, p));
        }
    }
    let cases = jobs.len() as u64;
    let res: Vec<Option<Found>> = jobs
        .par_iter()
        .map(|(m, pat)| {
            let m = *m;
            let b = n / m;
            let binv = inv(b as u64);
            let zinv: Vec<u64> = (0..b).map(|i| inv(powmod(psi, (m * (2 * i + 1)) as u64))).collect();
            let res_at = |blk: usize, p: usize| -> u64 {
                let h = 2 * blk + if p >= m / 2 { 1 } else { 0 };
                if pat[h] { 1 + ((blk as u64 * 7919 + p as u64 * 104729 + 12345) * 2654435761 % (P30 - 1)) } else { 0 }
            };
            let mut a = vec![0u32; n];
            for c in 0..b {
                let zc: Vec<u64> = zinv.iter().map(|&z| powmod(z, c as u64)).collect();
                for p in 0..m {
                    let mut acc = 0u64;
                    for blk in 0..b {
                        let r = res_at(blk, p);
                        if r != 0 {
                            acc = (acc + r * zc[blk] % P30) % P30;
                        }
                    }
                    a[c * m + p] = (acc * binv % P30) as u32;
                }
            }
            let want: Vec<u32> = (0..n).map(|k| { let mut acc = 0u64; for j in 0..n { acc = (acc + a[j] as u64 * pow[k][j] % P30) % P30; } acc as u32 }).collect();
            let case = || json!({"kind":"u32ntt","n":n});
            let describe = || format!("blocks of length {} with dense halves {:?}", m, pat.iter().enumerate().filter(|(_, x)| **x).map(|(i, _)| i).collect::<Vec<_>>());
            match catch(|| fh::u32field_fft(&a)) {
                Ok(g) if g == want => {}
                Ok(_) => return Some(found(format!("u32-ntt:n={}:sparsity-forward", n), format!("n={}: the 30-bit ntt of the input whose residues modulo X^{} - zeta are [{}] differs from the defining sum", n, m, describe()), case())),
                Err(e) => return Some(found(format!("u32-ntt:n={}:sparsity-panic", n), format!("n={}: the 30-bit ntt panicked on [{}]: {}", n, describe(), e), case())),
            }
            match catch(|| fh::u32field_ifft(&want)) {
                Ok(g) if g == a => None,
                Ok(_) => Some(found(format!("u32-ntt:n={}:sparsity-inverse", n), format!("n={}: the 30-bit intt of the spectrum of [{}] does not return the input", n, describe()), case())),
                Err(e) => Some(found(format!("u32-ntt:n={}:sparsity-panic", n), format!("n={}: the 30-bit intt panicked on the spectrum of [{}]: {}", n, describe(), e), case())),
            }
        })
        .collect();
    for f in res.into_iter().flatten() {
        if out.len() < 4 && !out.iter().any(|x| x.key == f.key) {
            out.push(f);
        }
    }
    (cases, out)
}

pub fn run(tier: Tier) {
    let mut ctx = Ctx::new("C17", tier);
    let ns: Vec<usize> = crate::util::sizes(2);
    let jobs: Vec<(usize, Base)> = ns
        .iter()
        .flat_map(|&n| {
            let seeds = if tier.thorough() { 4 } else if n >= 512 { 1 } else { 2 };
            bases(n, seeds).into_iter().map(move |b| (n, b))
        })
        .collect();
    let nbases = jobs.len();
    let real = jobs.iter().filter(|(_, b)| b.origin.starts_with("ntru_gen")).count();
    let t = jobs
        .par_iter()
        .map(|(n, b)| {
            let mut t = Tally::default();
            let all = tier.thorough() && *n <= 128;
            for (kname, k) in multipliers(*n, all) {
                run_case(&mut t, b, &kname, &k, "multiplier-alphabet");
            }
            t
        })
        .reduce(Tally::default, reduce);
    let mut part = Part::new(
        "multiplier_alphabet",
        "n in {2,4,...,1024}; (f,g,F0,G0) from ntru_gen (kept when the exact NTRU check holds) and two structured small quadruples per n; (F,G) = (F0,G0) + k*(f,g) for k in {0, c*X^j (c in +-1, +-2^4, 2^8, +-2^12, 2^16, 2^18), X^j +- X^i, three dense patterns} with j in {0,1,n/2,n-1} (all j for n <= 128 in thorough), inputs with a coefficient >= 2^24 skipped; both versions equal, f*G'-g*F' preserved exactly (i128 schoolbook), second reduction is the identity, (F-F',G-G') is an exact integer multiple of (f,g)",
    );
    part.states = t.cases;
    part.transitions = t.calls;
    part.validated = t.cases;
    part.exhaustive = true;
    part.set("bases", json!(nbases));
    part.set("bases_from_ntru_gen", json!(real));
    part.set("inputs_actually_reduced", json!(t.changed));
    part.set("skipped_over_2^24", json!(t.skipped_too_big));
    for (o, c) in &t.outcomes {
        part.outcome(format!("{} x{}", o, c));
    }
    if t.changed == 0 && t.nviol == 0 {
        crate::ctx::machinery_error("C17: no input was changed by the reduction (vacuity guard)");
    }
    for (_, f) in t.found {
        ctx.violation(f.key, f.what, f.case);
    }
    ctx.add_part(part);

    // degenerate inputs the quantifier includes
    let mut t = Tally::default();
    for &n in &ns {
        for b in bases(n, 1).into_iter().take(2) {
            // (F, G) = (0, 0)
            t.cases += 1;
            t.calls += 3;
            let z = vec![0i64; n];
            if let Err((class, what)) = judge(&b, &z, &z, false) {
                t.nviol += 1;
                let key = format!("babai:{}:F=G=0", class);
                t.found.entry(key.clone()).or_insert_with(|| found(key, format!("{} [(F,G) = (0,0), {}]", what, b.origin), json!({"kind":"babai","f":b.f,"g":b.g,"F":z,"G":z})));
            }
            // already reduced input
            if let Ok(o) = judge(&b, &b.cf, &b.cg, false) {
                t.cases += 1;
                t.calls += 3;
                if let Err((class, what)) = judge(&b, &o.reduced.0, &o.reduced.1, false) {
                    t.nviol += 1;
                    let key = format!("babai:{}:already-reduced", class);
                    t.found.entry(key.clone()).or_insert_with(|| found(key, format!("{} [already reduced input, {}]", what, b.origin), json!({"kind":"babai","f":b.f,"g":b.g,"F":o.reduced.0,"G":o.reduced.1})));
                }
            }
            // a single unit coefficient
            t.cases += 1;
            t.calls += 3;
            let mut e = vec![0i64; n];
            e[0] = 1;
            if let Err((class, what)) = judge(&b, &e, &z, false) {
                t.nviol += 1;
                let key = format!("babai:{}:F=1,G=0", class);
                t.found.entry(key.clone()).or_insert_with(|| found(key, format!("{} [(F,G) = (1,0), {}]", what, b.origin), json!({"kind":"babai","f":b.f,"g":b.g,"F":e,"G":z})));
            }
        }
    }
    let mut part = Part::new("degenerate_inputs", "(F,G) = (0,0), (1,0) and an already reduced pair, for every n and two bases each");
    part.states = t.cases;
    part.transitions = t.calls;
    part.validated = t.cases;
    part.exhaustive = true;
    part.outcome("both versions agree".to_string());
    part.outcome(format!("violating x{}", t.nviol));
    for (_, f) in t.found {
        ctx.violation(f.key, f.what, f.case);
    }
    ctx.add_part(part);
    // pairs (F, G) that are SHORTER than (f, g) and still not reduced: (F, G) = round(rho * X^c * (f, g)) with
    // rho in {1/2+, 3/4, 1-}, so that the rounded Babai quotient is +-X^c although every coefficient of (F, G)
    // has fewer bits than the largest coefficient of (f, g)
    let short: Tally = ns
        .par_iter()
        .map(|&n| {
            let mut t = Tally::default();
            let ms: &[i64] = if tier.thorough() { &[4, 12, 64, 1000, 1 << 12, 1 << 16, 1 << 20] } else { &[4, 64, 1000, 1 << 20] };
            for &m in ms {
                for (a, bb) in [(0usize, 1 % n), (n / 2, n - 1)] {
                    for s in [0i64, 1] {
                        for noisy in [false, true] {
                            if noisy && m < 64 {
                                continue;
                            }
                            let mut f: V = (0..n as i64).map(|i| if noisy { ((i * 5 + 1) % 5) - 2 } else { 0 }).collect();
                            let mut g: V = (0..n as i64).map(|i| if noisy { ((i * 3 + 2) % 5) - 2 } else { 0 }).collect();
                            f[a] += m;
                            g[bb] += s * m;
                            let base = Base { f: f.clone(), g: g.clone(), cf: vec![], cg: vec![], origin: format!("f = {}*X^{}{}, g = {}*X^{}{}", m, a, if noisy { " + noise" } else { "" }, s * m, bb, if noisy { " + noise" } else { "" }) };
                            for c in [0usize, 1 % n, n - 1] {
                                for (num, den, off) in [(3i64, 4i64, 0i64), (1, 2, 1), (1, 1, -1)] {
                                    for sgn in [1i64, -1] {
                                        let scale = |x: i64| -> i64 {
                                            if x.abs() < m / 2 {
                                                // noise terms: scaled and rounded towards zero
                                                sgn * (x * num / den)
                                            } else {
                                                sgn * (x * num / den + off * x.signum())
                                            }
                                        };
                                        let capf: V = poly::shift_z(&f.iter().map(|&x| scale(x)).collect::<V>(), c);
                                        let capg: V = poly::shift_z(&g.iter().map(|&x| scale(x)).collect::<V>(), c);
                                        t.cases += 1;
                                        t.calls += 3;
                                        match judge(&base, &capf, &capg, true) {
                                            Ok(o) => {
                                                if o.steps_changed {
                                                    t.changed += 1;
                                                }
                                            }
                                            Err((class, what)) => {
                                                t.nviol += 1;
                                                let key = format!("babai:{}:short-pair", class);
                                                let what = format!("{} [{}; (F,G) = {}round({}/{} X^{} (f,g)){:+}]", what, base.origin, if sgn < 0 { "-" } else { "" }, num, den, c, off);
                                                t.found.entry(key.clone()).or_insert_with(|| found(key, what, json!({"kind":"babai","f":f,"g":g,"F":capf,"G":capg})));
                                            }
                                        }
                                    }
                                }
                            }
                        }
                    }
                }
            }
            t
        })
        .reduce(Tally::default, reduce);
    let mut part = Part::new(
        "short_unreduced_pairs",
        "every n: (f,g) = (m X^a [+ small dense noise], s m X^b [+ noise]) for m in {4,64,1000,2^20} (thorough: 7 values), s in {0,1}; (F,G) = +-round(rho X^c (f,g)) for rho in {3/4, 1/2 + one unit, 1 - one unit}, c in {0,1,n-1}: every coefficient of (F,G) is shorter than the largest of (f,g) and yet the rounded quotient is +-X^c; same oracle as the multiplier alphabet",
    );
    part.states = short.cases;
    part.transitions = short.calls;
    part.validated = short.cases;
    part.exhaustive = true;
    part.set("inputs_actually_reduced", json!(short.changed));
    part.outcome(format!("reduced by one step x{}", short.changed));
    part.outcome(format!("left unchanged x{}", short.cases - short.changed - short.nviol.min(short.cases - short.changed)));
    if short.changed == 0 && short.nviol == 0 {
        crate::ctx::machinery_error("C17: no short pair was changed by the reduction (vacuity guard)");
    }
    for (_, f) in short.found {
        ctx.violation(f.key, f.what, f.case);
    }
    ctx.add_part(part);
    // call histories on one thread: a reduction after other calls on a DIFFERENT pair (f, g) that looks alike
    // (same degree, same squared norms: coefficients swapped, rotated, negated, reversed)
    {
        let mut part = Part::new("call_histories_with_lookalike_pairs", "n in {8, 64, 512, 1024}: on one fresh thread, first the Gram-Schmidt quantity of (f1, g1) (what key generation computes for every candidate) and a reduction modulo (f1, g1), then a reduction modulo (f2, g2) where f2 is f1 with two coefficients swapped / multiplied by X / negated / reversed (same degree and squared norms) and (F, G) = small + k (f2, g2): the second reduction is judged like any other (both versions equal, equation preserved, idempotent, multiple of (f2, g2))");
        let mut found_any: Vec<Found> = vec![];
        for &n in &[8usize, 64, 512, 1024] {
            let Some(b1) = bases(n, 1).into_iter().next() else { continue };
            let variants: Vec<(&str, V)> = vec![
                ("two coefficients swapped", { let mut v = b1.f.clone(); v.swap(0, n / 2 + 1); v }),
                ("multiplied by X", poly::shift_z(&b1.f, 1)),
                ("negated", b1.f.iter().map(|x| -x).collect()),
                ("reversed", b1.f.iter().rev().cloned().collect()),
            ];
            for (vname, f2) in variants {
                let b2 = Base { f: f2.clone(), g: b1.g.clone(), cf: vec![], cg: vec![], origin: format!("f2 = f1 with {}", vname) };
                let k: V = (0..n as i64).map(|i| if i % 3 == 0 { ((i * 7) % 11) - 5 } else { 0 }).collect();
                let kf = poly::mul_z(&k, &b2.f);
                let kg = poly::mul_z(&k, &b2.g);
                let capf: V = (0..n).map(|i| ((i as i64 * 5) % 7 - 3) + kf[i] as i64).collect();
                let capg: V = (0..n).map(|i| ((i as i64 * 3) % 5 - 2) + kg[i] as i64).collect();
                let (f1i, g1i): (Vec<i16>, Vec<i16>) = (b1.f.iter().map(|&x| x as i16).collect(), b1.g.iter().map(|&x| x as i16).collect());
                let b1c = Base { f: b1.f.clone(), g: b1.g.clone(), cf: vec![], cg: vec![], origin: String::new() };
                let (cf1, cg1) = (b1.cf.clone(), b1.cg.clone());
                let r = crate::sched::on_fresh_thread(move || {
                    let _ = catch(|| falcon_rust::verif_hooks::gram_schmidt_norm_squared(&f1i, &g1i));
                    let _ = judge(&b1c, &cf1, &cg1, false);
                    judge(&b2, &capf, &capg, true).map(|_| ()).map_err(|e| (e.0, e.1, b2.origin.clone()))
                });
                part.states += 1;
                part.transitions += 3;
                part.validated += 1;
                match r {
                    Ok(Ok(())) => part.outcome("second reduction correct".to_string()),
                    Ok(Err((class, what, origin))) => found_any.push(found(format!("babai:{}:after-lookalike-pair", class), format!("{} [after the Gram-Schmidt quantity and a reduction of another pair of the same degree and norms on the same thread; {}]", what, origin), json!({"kind":"babai-history","n":n}))),
                    Err(e) => found_any.push(found("babai:panic:after-lookalike-pair".to_string(), format!("panic in the call history at n={}: {}", n, e), json!({"kind":"babai-history","n":n}))),
                }
            }
        }
        for f in found_any {
            ctx.violation(f.key, f.what, f.case);
        }
        part.exhaustive = true;
        ctx.add_part(part);
    }
    let comp: Vec<(usize, (u64, Vec<Found>))> = ns.par_iter().map(|&n| (n, u32_ntt_component(n))).collect();
    let mut part = Part::new("u32_ntt_component", "the 30-bit NTT used by the multi-modular reduction, every n in {2,...,1024}: ntt(X) lists n distinct roots of X^n+1 mod p; ntt(c x^j) = c w_k^j and intt(ntt(c x^j)) = c x^j for all j and c in {+-1, +-2, +-2^20, 2^28-3} (negative c are residues next to the modulus); intt(ntt(+-x^j) .* ntt(f)) = +-x^j f for every j and two small dense f (one reduction step with a monomial multiplier); intermediate-state sparsity as in C11 (residues modulo X^m - zeta with each half-block zero or dense, m in {n/2, n/4, 8, 16})");
    for (n, (c, f)) in comp {
        part.states += c;
        part.transitions += 3 * c;
        part.validated += c;
        part.outcome(format!("n={} cases={}", n, c));
        for x in f {
            ctx.violation(x.key, x.what, x.case);
        }
    }
    for &n in &ns {
        let (c, f) = u32_sparsity(n);
        part.states += c;
        part.transitions += 2 * c;
        part.validated += c;
        part.outcome(format!("n={} sparsity patterns={}", n, c));
        for x in f {
            ctx.violation(x.key, x.what, x.case);
        }
    }
    part.exhaustive = true;
    ctx.add_part(part);
    {
        let (c, f) = u32_scalar_ops();
        let mut part = Part::new("u32_scalar_arithmetic", "scalar mul / add / sub of the 30-bit field: an alphabet of values at the seams (0, 1, 2, 3, 5, q, 2^k and 2^k +- 1 for k in {7,8,12,14,15,16,17,20,24,28,29,30} and their negatives, around sqrt(p), 65533..65535, p-1, p-2, p-3, (p+-1)/2) against every value in [0, 2^16], every value in [p-4096, p) and itself, both operand orders for sub; a result that is not the canonical representative must still negate, lift and multiply correctly; new / balanced_value at the seams of 8-, 16-, 24- and 29-bit values");
        part.states = c;
        part.transitions = c;
        part.validated = c;
        part.outcome(format!("operations={}", c));
        for x in f {
            ctx.violation(x.key, x.what, x.case);
        }
        part.exhaustive = true;
        ctx.add_part(part);
    }
    ctx.sample(json!({"n":4,"k":"2^12*X^1","meaning":"(F,G) = (F0,G0) + 4096 X (f,g) must reduce back to the same pair as (F0,G0) does"}));
    ctx.assume("at n = 2 ntru_gen does not produce an NTRU quadruple (30-bit field overflow, not a production size); quadruples failing the exact NTRU check are dropped and the structured bases cover that n");
    ctx.finish();
}

pub fn replay(case: &Value) -> Result<Option<String>, String> {
    if case.get("kind").and_then(|k| k.as_str()) == Some("babai-history") {
        return Err("re-run ./vf check C17 (the call histories are enumerated deterministically)".into());
    }
    if case.get("kind").and_then(|k| k.as_str()) == Some("u32scalar") {
        return Ok(u32_scalar_ops().1.into_iter().next().map(|f| f.what));
    }
    if case.get("kind").and_then(|k| k.as_str()) == Some("u32ntt") {
        let n = case.get("n").and_then(|x| x.as_u64()).ok_or("n")? as usize;
        return Ok(u32_ntt_component(n).1.into_iter().chain(u32_sparsity(n).1).next().map(|f| f.what));
    }
    let v = |k: &str| -> Result<V, String> { Ok(case.get(k).and_then(|x| x.as_array()).ok_or(format!("missing {}", k))?.iter().map(|x| x.as_i64().unwrap_or(0)).collect()) };
    let b = Base { f: v("f")?, g: v("g")?, cf: vec![], cg: vec![], origin: "replay".into() };
    Ok(judge(&b, &v("F")?, &v("G")?, true).err().map(|e| e.1))
}

//! C12 - arithmetic modulo q = 12289 is exact and canonical. Complete enumeration (E1).

use super::{found, Found};
use crate::ctx::{catch, Ctx, Part, Tier};
use crate::refmodel::{zq, Q};
use falcon_rust::verif_hooks as fh;
use rayon::prelude::*;
use serde_json::{json, Value};

const Q32: u32 = Q as u32;

fn check_pair(op: &str, a: u32, b: u32) -> Option<String> {
    let (got, want) = match op {
        "add" => (fh::felt_add(a, b), zq::add(a as i64, b as i64)),
        "sub" => (fh::felt_sub(a, b), zq::sub(a as i64, b as i64)),
        "mul" => (fh::felt_mul(a, b), zq::mul(a as i64, b as i64)),
        "multiply" => (fh::felt_multiply(a, b), zq::mul(a as i64, b as i64)),
        _ => unreachable!(),
    };
    if got as i64 != want {
        Some(format!("felt {}({}, {}) = {} (raw), expected {}", op, a, b, got, want))
    } else {
        None
    }
}

fn check_new(v: i16) -> Option<String> {
    let want = (v as i64).rem_euclid(Q);
    match catch(|| (fh::felt_new(v), fh::felt_value(fh::felt_new(v)))) {
        Ok((raw, val)) => {
            if raw as i64 != want || val as i64 != want {
                Some(format!(
                    "Felt::new({}) has raw value {} / value() {}, canonical representative is {}",
                    v, raw, val, want
                ))
            } else {
                None
            }
        }
        Err(e) => Some(format!("Felt::new({}) panicked: {}", v, e)),
    }
}

fn check_unary(inv: &[i64], a: u32) -> Vec<(String, String)> {
    let mut out = vec![];
    let n = fh::felt_neg(a);
    if n as i64 != zq::neg(a as i64) {
        out.push(("neg".to_string(), format!("-Felt({}) = {} expected {}", a, n, zq::neg(a as i64))));
    }
    let i = fh::felt_inv(a);
    if i as i64 != inv[a as usize] || (a != 0 && zq::mul(a as i64, i as i64) != 1) {
        out.push(("inv".to_string(), format!("Felt({}).inverse_or_zero() = {} expected {}", a, i, inv[a as usize])));
    }
    let b = fh::felt_balanced(a) as i64;
    if !(-6144..=6144).contains(&b) || b.rem_euclid(Q) != a as i64 || b != zq::centred(a as i64) {
        out.push(("balanced".to_string(), format!("Felt({}).balanced_value() = {} expected {}", a, b, zq::centred(a as i64))));
    }
    let v = fh::felt_value(a) as i64;
    if v != a as i64 {
        out.push(("value".to_string(), format!("Felt({}).value() = {}", a, v)));
    }
    out
}

fn check_batch(inv: &[i64], v: &[u32]) -> Option<String> {
    let got = fh::felt_batch_inv(v);
    let want: Vec<i64> = v.iter().map(|&x| inv[x as usize]).collect();
    if got.len() != v.len() || got.iter().zip(want.iter()).any(|(g, w)| *g as i64 != *w) {
        Some(format!("batch_inverse_or_zero({:?}) = {:?} expected {:?}", v, got, want))
    } else {
        None
    }
}

pub fn run(tier: Tier) {
    let mut ctx = Ctx::new("C12", tier);
    let inv = zq::inverse_table();

    // --- all ordered pairs, four binary operations ---
    let ops = ["add", "sub", "mul", "multiply"];
    let mut part = Part::new(
        "pairs",
        "all 12289^2 ordered pairs (a,b) of canonical residues x {add, sub, mul (operator), multiply (const fn)}; raw inner value compared with (a op b) mod q by i64::rem_euclid",
    );
    let res: Vec<(Vec<Found>, u64)> = (0..Q32)
        .into_par_iter()
        .map(|a| {
            let mut f = vec![];
            let mut distinct = 0u64;
            for b in 0..Q32 {
                for op in ops {
                    if let Some(w) = check_pair(op, a, b) {
                        if f.len() < 2 {
                            f.push(found(
                                format!("felt_{}:a={},b={}", op, a, b),
                                w,
                                json!({"kind":"pair","op":op,"a":a,"b":b}),
                            ));
                        }
                    }
                }
                distinct += 1;
            }
            (f, distinct)
        })
        .collect();
    let mut nviol = 0;
    for (f, d) in res {
        part.states += d;
        part.transitions += d * ops.len() as u64;
        part.validated += d * ops.len() as u64;
        for x in f {
            if nviol < 12 {
                ctx.violation(x.key, x.what, x.case);
            }
            nviol += 1;
        }
    }
    part.exhaustive = true;
    part.outcome("all results canonical and equal to the integer model".to_string());
    for (a, b) in [(0u32, 0u32), (12288, 12288), (6144, 6145), (1, 12288)] {
        part.outcome(format!(
            "add({a},{b})={} sub={} mul={}",
            fh::felt_add(a, b),
            fh::felt_sub(a, b),
            fh::felt_mul(a, b)
        ));
    }
    ctx.add_part(part);
    ctx.sample(json!({"op":"mul","a":12288,"b":12288,"impl":fh::felt_mul(12288,12288),"model":zq::mul(12288,12288)}));

    // --- all residues, unary operations ---
    let mut part = Part::new(
        "residues",
        "all 12289 residues x {neg, inverse_or_zero (a*inv=1, 0->0, equals exhaustive-search table), balanced_value in [-6144,6144] and congruent, value}",
    );
    for a in 0..Q32 {
        part.states += 1;
        part.transitions += 4;
        part.validated += 4;
        for (op, w) in check_unary(&inv, a) {
            ctx.violation(format!("felt_{}:a={}", op, a), w, json!({"kind":"unary","a":a}));
        }
    }
    part.exhaustive = true;
    part.outcome(format!("inv(2)={} neg(0)={} balanced(6144)={} balanced(6145)={}", fh::felt_inv(2), fh::felt_neg(0), fh::felt_balanced(6144), fh::felt_balanced(6145)));
    ctx.add_part(part);
    ctx.sample(json!({"op":"balanced_value","a":6145,"impl":fh::felt_balanced(6145),"model":zq::centred(6145)}));

    // --- all i16 -> Felt::new ---
    let mut part = Part::new(
        "felt_new",
        "all 65536 values of i16 through Felt::new under catch_unwind; raw inner value and value() must be v mod q in [0,q)",
    );
    let mut classes = std::collections::BTreeSet::new();
    for v in i16::MIN..=i16::MAX {
        part.states += 1;
        part.transitions += 1;
        part.validated += 1;
        if let Some(w) = check_new(v) {
            ctx.violation(format!("felt_new:v={}", v), w, json!({"kind":"new","v":v}));
            classes.insert("bad".to_string());
        } else {
            classes.insert(format!("floor(v/q)={}", (v as i64).div_euclid(Q)));
        }
    }
    for c in classes {
        part.outcome(c);
    }
    part.exhaustive = true;
    ctx.add_part(part);
    ctx.sample(json!({"op":"Felt::new","v":-12289,"model":0}));

    // --- batch inversion ---
    let all_pairs = tier.thorough();
    let mut part = Part::new(
        "batch_inverse",
        if all_pairs {
            "batch_inverse_or_zero on every ordered pair (a,b) of residues (zeros included) and on every triple over {0,1,2,6144,12288}"
        } else {
            "batch_inverse_or_zero on every pair (a,b) with a any residue and b in {0,1,2,6144,12288}, both orders, and every triple over {0,1,2,6144,12288}; product-structured batches ([a, 1/a], [a, 0, 1/a], [3, a, 1/(3a)], ... for every a; every length-5 batch over {0,1,2,1/2,-1,3,1/3}; production-length batches with total product 1)"
        },
    );
    let small = [0u32, 1, 2, 6144, 12288];
    let res: Vec<(Vec<Found>, u64)> = (0..Q32)
        .into_par_iter()
        .map(|a| {
            let mut f = vec![];
            let mut cnt = 0;
            let bs: Vec<u32> = if all_pairs { (0..Q32).collect() } else { small.to_vec() };
            for &b in &bs {
                for v in [[a, b], [b, a]] {
                    cnt += 1;
                    if let Some(w) = check_batch(&inv, &v) {
                        if f.len() < 2 {
                            f.push(found(format!("felt_batch_inv:{:?}", v), w, json!({"kind":"batch","v":v})));
                        }
                    }
                }
            }
            (f, cnt)
        })
        .collect();
    for (f, c) in res {
        part.states += c;
        part.transitions += c;
        part.validated += c;
        for x in f {
            ctx.violation(x.key, x.what, x.case);
        }
    }
    for &a in &small {
        for &b in &small {
            for &c in &small {
                part.states += 1;
                part.transitions += 1;
                part.validated += 1;
                if let Some(w) = check_batch(&inv, &[a, b, c]) {
                    ctx.violation(format!("felt_batch_inv:{:?}", [a, b, c]), w, json!({"kind":"batch","v":[a,b,c]}));
                }
            }
        }
    }
    // products: the running product passes through 1, q-1 and back; zeros in between
    let mut extra = 0u64;
    let inv3 = inv[3] as u32;
    let pres: Vec<Vec<Found>> = (1..Q32)
        .into_par_iter()
        .map(|a| {
            let ai = inv[a as usize] as u32;
            let a3i = inv[(3 * a as i64 % Q) as usize] as u32;
            let mut f = vec![];
            for v in [vec![a, ai], vec![a, ai, 5], vec![5, a, ai], vec![a, 0, ai], vec![0, a, ai, 0], vec![3, a, a3i], vec![a, 3, a3i, 7], vec![a, ai, a, ai], vec![a, Q32 - 1, ai, Q32 - 1]] {
                if let Some(w) = check_batch(&inv, &v) {
                    if f.len() < 2 {
                        f.push(found(format!("felt_batch_inv:product:{}", v.len()), w, json!({"kind":"batch","v":v})));
                    }
                }
            }
            f
        })
        .collect();
    extra += 9 * (Q32 as u64 - 1);
    for f in pres.into_iter().flatten() {
        ctx.violation(f.key, f.what, f.case);
    }
    let alpha = [0u32, 1, 2, 6145, 12288, 3, inv3];
    let total = alpha.len().pow(5);
    let sres: Vec<Found> = (0..total)
        .into_par_iter()
        .filter_map(|mut idx| {
            let mut v = vec![];
            for _ in 0..5 {
                v.push(alpha[idx % alpha.len()]);
                idx /= alpha.len();
            }
            check_batch(&inv, &v).map(|w| found("felt_batch_inv:alphabet-5".to_string(), w, json!({"kind":"batch","v":v})))
        })
        .collect();
    extra += total as u64;
    for f in sres.into_iter().take(3) {
        ctx.violation(f.key, f.what, f.case);
    }
    // production-length batches whose total product is 1, with and without zeros
    for n in [512usize, 1024] {
        for zeros in [0usize, 1, 7] {
            let mut v: Vec<u32> = (0..n).map(|i| 1 + ((i as u32).wrapping_mul(2654435761u32) >> 8) % (Q32 - 1)).collect();
            for z in 0..zeros {
                v[(z * 73 + 5) % (n - 1)] = 0;
            }
            let prod = v[..n - 1].iter().filter(|&&x| x != 0).fold(1i64, |acc, &x| acc * x as i64 % Q);
            v[n - 1] = inv[prod as usize] as u32;
            extra += 1;
            if let Some(w) = check_batch(&inv, &v) {
                ctx.violation(format!("felt_batch_inv:product-one:n={}", n), format!("a batch of {} entries with {} zeros whose non-zero entries multiply to 1: {}", n, zeros, &w[..w.len().min(200)]), json!({"kind":"batch","v":v}));
            }
        }
    }
    part.states += extra;
    part.transitions += extra;
    part.validated += extra;
    part.set("product_structured_batches", json!(extra));
    part.exhaustive = all_pairs;
    part.outcome(format!("batch([0,2,0])={:?}", fh::felt_batch_inv(&[0, 2, 0])));
    part.outcome(format!("batch([12288,6144])={:?}", fh::felt_batch_inv(&[12288, 6144])));
    ctx.add_part(part);

    // call histories on one fresh thread: a result must not depend on the calls made before it (memo of the last
    // operation, remembered argument or result)
    {
        let inv2 = inv.clone();
        let r = crate::sched::on_fresh_thread(move || {
            let mut bad: Vec<String> = vec![];
            let mut n = 0u64;
            let mut chk = |what: String, got: u32, want: i64, bad: &mut Vec<String>| {
                if got as i64 != want && bad.len() < 6 {
                    bad.push(format!("{} = {} expected {}", what, got, want));
                }
            };
            // inverse: x, 0, 0, x, x for every residue, in one long history
            for x in 0..Q32 {
                for (k, a) in [x, 0, 0, x, x, 1].into_iter().enumerate() {
                    n += 1;
                    chk(format!("inverse_or_zero({}) as call {} of the history [x, 0, 0, x, x, 1] with x = {}", a, k + 1, x), fh::felt_inv(a), inv2[a as usize], &mut bad);
                }
            }
            // every triple over a small set, for inverse, negation and the centred representative
            let small = [0u32, 1, 2, 6144, 6145, 12288, 5];
            for &a in &small {
                for &b in &small {
                    for &c in &small {
                        for x in [a, b, c] {
                            n += 3;
                            chk(format!("inverse_or_zero({}) in the history {:?}", x, [a, b, c]), fh::felt_inv(x), inv2[x as usize], &mut bad);
                            chk(format!("-Felt({}) in the history {:?}", x, [a, b, c]), fh::felt_neg(x), (-(x as i64)).rem_euclid(Q), &mut bad);
                        }
                    }
                }
            }
            // binary operations: (a,b), (b,a), (a,a), (a,b) again, with one operand from the small set
            for &a in &small {
                for b in (0..Q32).step_by(7) {
                    for (x, y) in [(a, b), (b, a), (a, a), (a, b), (b, b)] {
                        n += 3;
                        chk(format!("Felt({}) * Felt({}) in a history around ({}, {})", x, y, a, b), fh::felt_mul(x, y), (x as i64 * y as i64) % Q, &mut bad);
                        chk(format!("Felt({}) + Felt({}) in a history around ({}, {})", x, y, a, b), fh::felt_add(x, y), (x as i64 + y as i64) % Q, &mut bad);
                        chk(format!("Felt({}) - Felt({}) in a history around ({}, {})", x, y, a, b), fh::felt_sub(x, y), (x as i64 - y as i64).rem_euclid(Q), &mut bad);
                    }
                }
            }
            (n, bad)
        });
        let mut part = Part::new("call_histories", "on one fresh thread, one long history: inverse_or_zero along [x, 0, 0, x, x, 1] for every residue x; every triple over {0,1,2,6144,6145,12288,5} for inverse and negation; add / sub / mul along (a,b), (b,a), (a,a), (a,b), (b,b) for a in that set and every 7th b: every result is the one of the same call made alone");
        match r {
            Ok((n, bad)) => {
                part.states = n;
                part.transitions = n;
                part.validated = n;
                for b in bad {
                    ctx.violation(format!("felt-history:{}", b.split('(').next().unwrap_or("")), format!("{} [call history on one thread]", b), json!({"kind":"felt-history"}));
                }
            }
            Err(e) => ctx.violation("felt-history:panic".to_string(), format!("panic in the call history: {}", e), json!({"kind":"felt-history"})),
        }
        part.exhaustive = true;
        ctx.add_part(part);
    }
    ctx.assume("reference = i64 arithmetic with rem_euclid; inverse table by exhaustive search");
    ctx.finish();
}

pub fn replay(case: &Value) -> Result<Option<String>, String> {
    let kind = case.get("kind").and_then(|k| k.as_str()).ok_or("no kind")?;
    let inv = zq::inverse_table();
    let u = |k: &str| case.get(k).and_then(|x| x.as_u64()).map(|x| x as u32);
    match kind {
        "pair" => {
            let op = case.get("op").and_then(|k| k.as_str()).ok_or("no op")?;
            Ok(check_pair(op, u("a").ok_or("a")?, u("b").ok_or("b")?))
        }
        "unary" => Ok(check_unary(&inv, u("a").ok_or("a")?).into_iter().next().map(|x| x.1)),
        "new" => {
            let v = case.get("v").and_then(|x| x.as_i64()).ok_or("v")? as i16;
            Ok(check_new(v))
        }
        "felt-history" => Err("re-run ./vf check C12 (the history is enumerated deterministically)".into()),
        "batch" => {
            let v: Vec<u32> = case
                .get("v")
                .and_then(|x| x.as_array())
                .ok_or("v")?
                .iter()
                .map(|x| x.as_u64().unwrap_or(0) as u32)
                .collect();
            Ok(check_batch(&inv, &v))
        }
        _ => Err(format!("unknown kind {}", kind)),
    }
}

//! C13 - the floating-point FFT layer is accurate, split/merge are inverse. E2: scaled basis
//! vectors and basis pairs (generating set of the bilinear circuit) plus corner families that
//! maximise rounding, every n; verdict threshold is the property's own 2^-30 * ||a|| * ||b||.

use super::{found, Found};
use crate::ctx::{catch, Ctx, Part, Tier};
use crate::refmodel::poly;
use falcon_rust::verif_hooks as fh;
use rayon::prelude::*;
use serde_json::{json, Value};

type C = (f64, f64);

fn real(v: &[i64]) -> Vec<C> {
    v.iter().map(|&x| (x as f64, 0.0)).collect()
}

fn norm2(v: &[i64]) -> f64 {
    v.iter().map(|&x| (x as f64) * (x as f64)).sum::<f64>().sqrt()
}

fn unit(n: usize, i: usize, m: i64) -> Vec<i64> {
    let mut v = vec![0i64; n];
    v[i] = m;
    v
}

const TOL: f64 = 9.313225746154785e-10; // 2^-30

#[derive(Default, Clone)]
struct Res {
    cases: u64,
    calls: u64,
    worst: f64, // worst error relative to the property's allowance (1.0 = at the limit)
    found: Vec<Found>,
}

fn merge(mut a: Res, b: Res) -> Res {
    a.cases += b.cases;
    a.calls += b.calls;
    a.worst = a.worst.max(b.worst);
    for f in b.found {
        if a.found.len() < 12 && !a.found.iter().any(|x| x.key == f.key) {
            a.found.push(f);
        }
    }
    a
}

/// ifft(fft(a) .* fft(b)) against the exact product; returns error / allowance
fn product_error(a: &[i64], b: &[i64], exact: Option<&[i128]>) -> Result<f64, String> {
    let n = a.len();
    let (ra, rb) = (real(a), real(b));
    let got = catch(|| fh::complex_ifft(&fh::complex_hadamard_mul(&fh::complex_fft(&ra), &fh::complex_fft(&rb))))?;
    let owned;
    let want: &[i128] = match exact {
        Some(w) => w,
        None => {
            owned = poly::mul_z(a, b);
            &owned
        }
    };
    let allow = TOL * norm2(a) * norm2(b);
    let mut worst: f64 = 0.0;
    for k in 0..n {
        let e = (got[k].0 - want[k] as f64).abs().max(got[k].1.abs());
        if !e.is_finite() {
            return Ok(f64::INFINITY);
        }
        worst = worst.max(e);
    }
    Ok(worst / allow)
}

fn roundtrip_error(a: &[i64]) -> Result<f64, String> {
    let ra = real(a);
    let got = catch(|| fh::complex_ifft(&fh::complex_fft(&ra)))?;
    let allow = TOL * norm2(a);
    let mut worst: f64 = 0.0;
    for k in 0..a.len() {
        let e = (got[k].0 - a[k] as f64).abs().max(got[k].1.abs());
        if !e.is_finite() {
            return Ok(f64::INFINITY);
        }
        worst = worst.max(e);
    }
    Ok(worst / allow)
}

/// merge(split(F)) = F and split(fft(a)) = (fft(a_even), fft(a_odd)), relative to 2^-30 ||F||
fn split_merge_error(a: &[i64]) -> Result<f64, String> {
    let n = a.len();
    if n < 2 {
        return Ok(0.0);
    }
    let fa = catch(|| fh::complex_fft(&real(a)))?;
    let fnorm = fa.iter().map(|c| c.0 * c.0 + c.1 * c.1).sum::<f64>().sqrt();
    let (f0, f1) = catch(|| fh::complex_split_fft(&fa))?;
    let back = catch(|| fh::complex_merge_fft(&f0, &f1))?;
    let even: Vec<i64> = (0..n / 2).map(|k| a[2 * k]).collect();
    let odd: Vec<i64> = (0..n / 2).map(|k| a[2 * k + 1]).collect();
    let fe = catch(|| fh::complex_fft(&real(&even)))?;
    let fo = catch(|| fh::complex_fft(&real(&odd)))?;
    let mut worst: f64 = 0.0;
    let d = |x: C, y: C| ((x.0 - y.0).abs()).max((x.1 - y.1).abs());
    for k in 0..n {
        worst = worst.max(d(back[k], fa[k]));
    }
    for k in 0..n / 2 {
        worst = worst.max(d(f0[k], fe[k])).max(d(f1[k], fo[k]));
    }
    if !worst.is_finite() {
        return Ok(f64::INFINITY);
    }
    Ok(worst / (TOL * fnorm.max(1e-300)))
}

/// the same two identities on a = 2^ka * A, b = 2^kb * B with integer A, B: scaling by a power of two is exact in
/// binary floating point, so a correct (linear / bilinear) transform has the same RELATIVE error at every scale;
/// the allowance scales with the operands' norms, exactly as the property states it
fn scaled_errors(a: &[i64], b: &[i64], ka: i32, kb: i32) -> Result<(f64, f64), String> {
    let n = a.len();
    let (sa, sb) = (2f64.powi(ka), 2f64.powi(kb));
    let ra: Vec<C> = a.iter().map(|&x| (x as f64 * sa, 0.0)).collect();
    let rb: Vec<C> = b.iter().map(|&x| (x as f64 * sb, 0.0)).collect();
    let back = catch(|| fh::complex_ifft(&fh::complex_fft(&ra)))?;
    let prod = catch(|| fh::complex_ifft(&fh::complex_hadamard_mul(&fh::complex_fft(&ra), &fh::complex_fft(&rb))))?;
    let want = poly::mul_z(a, b);
    let (na, nb) = (norm2(a) * sa, norm2(b) * sb);
    let (mut e1, mut e2): (f64, f64) = (0.0, 0.0);
    for k in 0..n {
        e1 = e1.max((back[k].0 - ra[k].0).abs()).max(back[k].1.abs());
        e2 = e2.max((prod[k].0 - want[k] as f64 * sa * sb).abs()).max(prod[k].1.abs());
    }
    let f = |e: f64, allow: f64| if e.is_finite() { e / allow } else { f64::INFINITY };
    Ok((f(e1, TOL * na), f(e2, TOL * na * nb)))
}

fn check_scales(n: usize, ladder: &[i32]) -> Res {
    let mut r = Res::default();
    let mut idx = vec![0usize, 1 % n, n / 2, n - 1];
    idx.sort();
    idx.dedup();
    let dense = corner_vectors(n, 1);
    for &ka in ladder {
        for &kb in &[ka, 0, 10] {
            let mut cases: Vec<(String, Vec<i64>, Vec<i64>)> = vec![];
            for &i in &idx {
                for &j in &idx {
                    cases.push((format!("X^{} , X^{}", i, j), unit(n, i, 1), unit(n, j, 1)));
                }
            }
            for (na, a) in dense.iter().take(4) {
                cases.push((format!("{} , ramp", na), a.clone(), dense[dense.len() - 2].1.clone()));
            }
            for (name, a, b) in cases {
                let res = scaled_errors(&a, &b, ka, kb);
                let case = json!({"kind":"scaled","n":n,"ka":ka,"kb":kb,"pair":name});
                match res {
                    Ok((e1, e2)) => {
                        record(&mut r, Ok(e1), format!("fft:scaled-roundtrip:n={}", n), |x| format!("n={}: ifft(fft(2^{} * [{}].0)) is off by {:.3e} x the allowed 2^-30 ||a|| (the transform is not scale-invariant)", n, ka, name, x), case.clone(), 2);
                        record(&mut r, Ok(e2), format!("fft:scaled-product:n={}", n), |x| format!("n={}: ifft(fft(2^{} a) .* fft(2^{} b)) for (a , b) = ({}) is off by {:.3e} x the allowed 2^-30 ||a|| ||b||", n, ka, kb, name, x), case, 4);
                    }
                    Err(e) => record(&mut r, Err(e), format!("fft:scaled:n={}", n), |_| String::new(), case, 6),
                }
            }
        }
    }
    r
}

fn cmul(a: C, b: C) -> C {
    (a.0 * b.0 - a.1 * b.1, a.0 * b.1 + a.1 * b.0)
}
fn cdiv(a: C, b: C) -> C {
    let d = b.0 * b.0 + b.1 * b.1;
    ((a.0 * b.0 + a.1 * b.1) / d, (a.1 * b.0 - a.0 * b.1) / d)
}

/// split and merge on transforms of real polynomials that are CHOSEN IN THE TRANSFORM DOMAIN, against the
/// definition: with zeta_k the root evaluated in slot k (read off fft(X)) and xi_j those of the half-size
/// transform, the two slots k, k' with zeta^2 = xi_j give f0[j] = (F[k] + F[k'])/2, f1[j] = (F[k] - F[k'])/(2 zeta_k).
/// The family is an R-basis of C^n (e_k and i e_k), every mixed pair on partner slots, and dense vectors: a fast
/// path chosen by looking at one entry (purely real, zero, ...) is exercised with every kind of partner.
fn check_split_domain(n: usize) -> Res {
    let mut r = Res::default();
    if n < 2 {
        return r;
    }
    let x_n: Vec<C> = (0..n).map(|i| if i == 1 % n { (1.0, 0.0) } else { (0.0, 0.0) }).collect();
    let x_h: Vec<C> = (0..n / 2).map(|i| if i == 1 % (n / 2) { (1.0, 0.0) } else { (0.0, 0.0) }).collect();
    let (roots_n, roots_h) = match (catch(|| fh::complex_fft(&x_n)), catch(|| fh::complex_fft(&x_h))) {
        (Ok(a), Ok(b)) => (a, if n == 2 { vec![(0.0, 0.0)] } else { b }),
        _ => return r,
    };
    // partner slots: for each half-size slot j the two full-size slots whose root squares to xi_j (n = 2: xi = the constant map)
    let mut partner: Vec<(usize, usize)> = vec![];
    for j in 0..n / 2 {
        let ks: Vec<usize> = (0..n)
            .filter(|&k| {
                let sq = cmul(roots_n[k], roots_n[k]);
                if n == 2 {
                    true
                } else {
                    (sq.0 - roots_h[j].0).abs() < 1e-9 && (sq.1 - roots_h[j].1).abs() < 1e-9
                }
            })
            .collect();
        if ks.len() != 2 {
            return r; // the slot structure is not what the definition expects: the basis parts report that
        }
        partner.push((ks[0], ks[1]));
    }
    // every vector of the family is the transform of a REAL polynomial: entries on conjugate slots are conjugates
    let conj_slot: Vec<usize> = (0..n).map(|k| (0..n).find(|&c| (roots_n[c].0 - roots_n[k].0).abs() < 1e-9 && (roots_n[c].1 + roots_n[k].1).abs() < 1e-9).unwrap_or(k)).collect();
    let symmetric = |assign: &[(usize, C)], background: bool| -> Option<Vec<C>> {
        let mut f: Vec<Option<C>> = vec![None; n];
        for &(k, v) in assign {
            for (slot, val) in [(k, v), (conj_slot[k], (v.0, -v.1))] {
                match f[slot] {
                    Some(w) if w != val => return None,
                    _ => f[slot] = Some(val),
                }
            }
        }
        let mut out = vec![(0.0, 0.0); n];
        for k in 0..n {
            out[k] = match f[k] {
                Some(v) => v,
                None if background => {
                    let (a, b) = (k.min(conj_slot[k]), k.max(conj_slot[k]));
                    let v = ((((a * 37 + 11) % 101) as f64) - 50.0, (((b * 53 + 7) % 89) as f64) - 44.0);
                    if conj_slot[k] == k {
                        (v.0, 0.0)
                    } else if k == a {
                        v
                    } else {
                        (v.0, -v.1)
                    }
                }
                None => (0.0, 0.0),
            };
        }
        Some(out)
    };
    let mut family: Vec<(String, Vec<C>)> = vec![];
    let ks: Vec<usize> = if n <= 256 { (0..n).collect() } else { (0..n).step_by(n / 128).chain([1, n - 1]).collect() };
    for &k in &ks {
        for (nv, v) in [("1", (16384.0, 0.0)), ("i", (0.0, 16384.0))] {
            if let Some(f) = symmetric(&[(k, v)], false) {
                family.push((format!("{} at slot {} (and its conjugate)", nv, k), f));
            }
        }
    }
    let js: Vec<usize> = if n <= 256 { (0..n / 2).collect() } else { (0..n / 2).step_by(n / 64).chain([n / 2 - 1]).collect() };
    for &j in &js {
        let (k, k2) = partner[j];
        for (na, va) in [("1", (3.0, 0.0)), ("i", (0.0, 5.0)), ("1+i", (7.0, -2.0)), ("0", (0.0, 0.0))] {
            for (nb, vb) in [("1", (11.0, 0.0)), ("i", (0.0, -13.0)), ("1+i", (-1.5, 4.0)), ("0", (0.0, 0.0))] {
                for bg in [false, true] {
                    if let Some(f) = symmetric(&[(k, va), (k2, vb)], bg) {
                        family.push((format!("{} at slot {}, {} at slot {}{}", na, k, nb, k2, if bg { ", dense elsewhere" } else { "" }), f));
                    }
                }
            }
        }
    }
    for (name, f) in family {
        let fnorm = f.iter().map(|c| c.0 * c.0 + c.1 * c.1).sum::<f64>().sqrt().max(1e-300);
        let case = json!({"kind":"split-domain","n":n,"vector":name});
        let res = catch(|| fh::complex_split_fft(&f)).and_then(|(f0, f1)| catch(|| fh::complex_merge_fft(&f0, &f1)).map(|back| (f0, f1, back)));
        match res {
            Err(e) => record(&mut r, Err(e), format!("fft:split-domain:n={}", n), |_| String::new(), case, 2),
            Ok((f0, f1, back)) => {
                let mut worst: f64 = 0.0;
                for j in 0..n / 2 {
                    let (k, k2) = partner[j];
                    let w0 = ((f[k].0 + f[k2].0) / 2.0, (f[k].1 + f[k2].1) / 2.0);
                    let w1 = cdiv(((f[k].0 - f[k2].0) / 2.0, (f[k].1 - f[k2].1) / 2.0), roots_n[k]);
                    worst = worst.max((f0[j].0 - w0.0).abs()).max((f0[j].1 - w0.1).abs()).max((f1[j].0 - w1.0).abs()).max((f1[j].1 - w1.1).abs());
                }
                for k in 0..n {
                    worst = worst.max((back[k].0 - f[k].0).abs()).max((back[k].1 - f[k].1).abs());
                }
                let rel = if worst.is_finite() { worst / (TOL * fnorm) } else { f64::INFINITY };
                record(&mut r, Ok(rel), format!("fft:split-domain:n={}", n), |x| format!("n={}: split / merge on the transform-domain vector [{}] is off by {:.3e} x the allowed 2^-30 ||F|| (against the definition over partner slots)", n, name, x), case, 2);
            }
        }
    }
    r
}

/// Intermediate-state sparsity for the complex transform (see C11): real polynomials whose residues modulo the
/// partial factors X^m - zeta (zeta^(n/m) = -1; conjugate roots carry conjugate residues) have each half-block zero
/// or dense. Oracle: the defining sums over the slot roots read off fft(X), and the round trip.
fn check_fft_sparsity(n: usize) -> Res {
    let mut r = Res::default();
    if n < 8 {
        return r;
    }
    let x_n: Vec<C> = (0..n).map(|i| if i == 1 { (1.0, 0.0) } else { (0.0, 0.0) }).collect();
    let roots = match catch(|| fh::complex_fft(&x_n)) {
        Ok(v) => v,
        Err(_) => return r,
    };
    let mut levels: Vec<usize> = vec![n / 2, n / 4, n / 8, 8, 16];
    levels.retain(|&m| m >= 2 && m < n);
    levels.sort();
    levels.dedup();
    for m in levels {
        let b = n / m;
        let zeta: Vec<C> = (0..b).map(|i| { let ang = std::f64::consts::PI * (2 * i + 1) as f64 / b as f64; (ang.cos(), ang.sin()) }).collect();
        let indep = (b / 2).max(1);
        for pat in super::c11::sparsity_patterns(2 * indep) {
            // residues on the independent blocks, conjugates on the mirrored ones
            let res_at = |blk: usize, p: usize| -> C {
                let (ib, conj) = if blk < indep { (blk, false) } else { (b - 1 - blk, true) };
                let h = 2 * ib + if p >= m / 2 { 1 } else { 0 };
                if !pat[h] {
                    return (0.0, 0.0);
                }
                let v = ((((ib * 37 + p * 11 + 5) % 41) as f64) - 20.0 + 0.5, (((ib * 53 + p * 7 + 3) % 37) as f64) - 18.0 + 0.25);
                if conj { (v.0, -v.1) } else { v }
            };
            let mut a = vec![0.0f64; n];
            for c in 0..b {
                for p in 0..m {
                    let mut acc = (0.0, 0.0);
                    for blk in 0..b {
                        let rv = res_at(blk, p);
                        if rv != (0.0, 0.0) {
                            // zeta_blk^(-c)
                            let ang = -std::f64::consts::PI * ((2 * blk + 1) * c) as f64 / b as f64;
                            let t = cmul(rv, (ang.cos(), ang.sin()));
                            acc = (acc.0 + t.0, acc.1 + t.1);
                        }
                    }
                    a[c * m + p] = acc.0 / b as f64;
                }
            }
            let _ = &zeta;
            let anorm = a.iter().map(|x| x * x).sum::<f64>().sqrt().max(1e-300);
            let ra: Vec<C> = a.iter().map(|&x| (x, 0.0)).collect();
            let case = json!({"kind":"fft-sparsity","n":n,"m":m});
            let dense: Vec<usize> = pat.iter().enumerate().filter(|(_, x)| **x).map(|(i, _)| i).collect();
            match catch(|| { let f = fh::complex_fft(&ra); let back = fh::complex_ifft(&f); (f, back) }) {
                Err(e) => record(&mut r, Err(e), format!("fft:sparsity:n={}", n), |_| String::new(), case, 2),
                Ok((f, back)) => {
                    let mut worst: f64 = 0.0;
                    for k in 0..n {
                        // a(root_k) by Horner
                        let mut acc = (0.0, 0.0);
                        for j in (0..n).rev() {
                            acc = cmul(acc, roots[k]);
                            acc.0 += a[j];
                        }
                        worst = worst.max((f[k].0 - acc.0).abs()).max((f[k].1 - acc.1).abs());
                    }
                    // the transform has norm sqrt(n) ||a||: the allowance is relative to the operand norm as the property states
                    let rel_f = worst / (TOL * anorm * (n as f64).sqrt());
                    let mut wb: f64 = 0.0;
                    for k in 0..n {
                        wb = wb.max((back[k].0 - a[k]).abs()).max(back[k].1.abs());
                    }
                    let rel_b = wb / (TOL * anorm);
                    let rel = if rel_f.is_finite() && rel_b.is_finite() { rel_f.max(rel_b) } else { f64::INFINITY };
                    record(&mut r, Ok(rel), format!("fft:sparsity:n={}", n), |x| format!("n={}: fft / ifft on the real polynomial whose residues modulo X^{} - zeta have dense halves {:?} (zero elsewhere) is off by {:.3e} x the allowed 2^-30 of the operand norm", n, m, dense, x), case, 2);
                }
            }
        }
    }
    r
}

fn record(r: &mut Res, rel: Result<f64, String>, key: String, what: impl Fn(f64) -> String, case: Value, calls: u64) {
    r.cases += 1;
    r.calls += calls;
    match rel {
        Ok(x) => {
            r.worst = r.worst.max(if x.is_finite() { x } else { 1e300 });
            if !(x <= 1.0) {
                if r.found.len() < 12 && !r.found.iter().any(|f| f.key == key) {
                    r.found.push(found(key, what(x), case));
                }
            }
        }
        Err(e) => {
            if r.found.len() < 12 {
                r.found.push(found(format!("{}:panic", key), format!("panicked: {}", e), case));
            }
        }
    }
}

fn walsh(n: usize, k: usize, m: i64) -> Vec<i64> {
    (0..n).map(|i| if (i & k).count_ones() % 2 == 0 { m } else { -m }).collect()
}

fn corner_vectors(n: usize, m: i64) -> Vec<(String, Vec<i64>)> {
    let mut v = vec![("all-max".to_string(), vec![m; n]), ("alternating".to_string(), (0..n).map(|i| if i % 2 == 0 { m } else { -m }).collect())];
    for k in [1usize, n / 2, n - 1, (n / 3) | 1] {
        if k < n {
            v.push((format!("walsh{}", k), walsh(n, k, m)));
        }
    }
    v.push(("ramp".to_string(), (0..n).map(|i| m - ((2 * m * i as i64) / n as i64)).collect()));
    v.push(("max-minus-one".to_string(), (0..n).map(|i| if i % 3 == 0 { m } else { 1 - m }).collect()));
    v
}

fn check_size(n: usize, all_pairs: bool) -> (Res, Res, Res) {
    let mut basis = Res::default();
    let mut pairs = Res::default();
    let mut corners = Res::default();
    for i in 0..n {
        for m in [1i64, 1 << 14] {
            let a = unit(n, i, m);
            record(&mut basis, roundtrip_error(&a), format!("fft:roundtrip:n={}", n), |x| format!("n={}: ifft(fft({} X^{})) is off by {:.3} x the allowed 2^-30 ||a||", n, m, i, x), json!({"kind":"roundtrip","n":n,"i":i,"m":m}), 2);
        }
        let a = unit(n, i, 1 << 14);
        record(&mut basis, split_merge_error(&a), format!("fft:split-merge:n={}", n), |x| format!("n={}: split/merge on fft(2^14 X^{}) off by {:.3} x the allowed 2^-30 ||F||", n, i, x), json!({"kind":"splitmerge","n":n,"i":i}), 5);
    }
    let js: Vec<usize> = if all_pairs {
        (0..n).collect()
    } else {
        let mut v = vec![0, 1 % n, n / 2, n - 1];
        v.sort();
        v.dedup();
        v
    };
    for i in 0..n {
        for &j in &js {
            let a = unit(n, i, 1 << 14);
            let b = unit(n, j, 1 << 10);
            let mut want = vec![0i128; n];
            let k = i + j;
            if k < n {
                want[k] = 1 << 24;
            } else {
                want[k - n] = -(1 << 24);
            }
            record(&mut pairs, product_error(&a, &b, Some(&want)), format!("fft:pair:n={}", n), |x| format!("n={}: ifft(fft(2^14 X^{}) .* fft(2^10 X^{})) off by {:.3} x the allowed 2^-30 ||a|| ||b||", n, i, j, x), json!({"kind":"pair","n":n,"i":i,"j":j}), 4);
        }
    }
    let ca = corner_vectors(n, 1 << 14);
    let cb = corner_vectors(n, 1 << 10);
    for (na, a) in &ca {
        record(&mut corners, roundtrip_error(a), format!("fft:roundtrip-corner:n={}", n), |x| format!("n={}: ifft(fft({})) off by {:.3} x allowance", n, na, x), json!({"kind":"corner-roundtrip","n":n,"a":na}), 2);
        record(&mut corners, split_merge_error(a), format!("fft:split-merge-corner:n={}", n), |x| format!("n={}: split/merge on fft({}) off by {:.3} x allowance", n, na, x), json!({"kind":"corner-splitmerge","n":n,"a":na}), 5);
        for (nb, b) in &cb {
            record(&mut corners, product_error(a, b, None), format!("fft:product-corner:n={}", n), |x| format!("n={}: product of corner vectors {} (2^14) and {} (2^10) off by {:.3} x the allowed 2^-30 ||a|| ||b||", n, na, nb, x), json!({"kind":"corner-product","n":n,"a":na,"b":nb}), 4);
        }
    }
    (basis, pairs, corners)
}

pub fn run(tier: Tier) {
    let mut ctx = Ctx::new("C13", tier);
    let sizes = crate::util::sizes(2);
    let res: Vec<(usize, (Res, Res, Res))> = sizes.par_iter().map(|&n| (n, check_size(n, tier.thorough() || n <= 128))).collect();
    let mut pb = Part::new("scaled_basis", "every n in {2,...,1024}: ifft(fft(M X^i)) = M X^i for all i, M in {1, 2^14}; merge(split(F)) = F and split(fft(a)) = (fft(a_even), fft(a_odd)) on F = fft(2^14 X^i); tolerance 2^-30 of the operand norm");
    let mut pp = Part::new(
        "basis_pairs",
        if tier.thorough() { "every n: ifft(fft(2^14 X^i) .* fft(2^10 X^j)) = +-2^24 X^(i+j) for ALL pairs (i,j)" } else { "n <= 128: all pairs (i,j); larger n: all i, j in {0,1,n/2,n-1}: ifft(fft(2^14 X^i) .* fft(2^10 X^j)) = +-2^24 X^(i+j)" },
    );
    let mut pc = Part::new("corner_families", "every n: all-max, alternating, Walsh sign patterns (4 representatives), ramp, near-max vectors at magnitude 2^14 x the same at 2^10: round trip, split/merge, and product against the exact i128 schoolbook negacyclic product");
    // scale ladder: the same identities with the operands scaled by 2^k
    let ladder: Vec<i32> = if tier.thorough() { (-64..=14).collect() } else { (-64..=14).step_by(6).chain([-34, -24, -23, 14]).collect() };
    let sres: Vec<(usize, Res)> = sizes.par_iter().map(|&n| (n, check_scales(n, &ladder))).collect();
    let mut ps = Part::new("scale_ladder", &format!("every n: operands 2^ka A and 2^kb B for ka in {} exponents from -64 to 14, kb in {{ka, 0, 10}}; (A,B) = all pairs of X^i, i in {{0,1,n/2,n-1}}, and four dense sign patterns against a ramp: round trip and product against the exact integer product scaled exactly; tolerance 2^-30 of the operands' norms at that scale", ladder.len()));
    let mut sworst: f64 = 0.0;
    for (n, r) in sres {
        ps.states += r.cases;
        ps.transitions += r.calls;
        ps.validated += r.cases;
        sworst = sworst.max(r.worst);
        ps.outcome(format!("n={} worst error = 2^{:.1} of the allowance", n, r.worst.max(1e-300).log2()));
        for f in r.found {
            ctx.violation(f.key, f.what, f.case);
        }
    }
    ps.set("worst_error_over_allowance_log2", json!(sworst.max(1e-300).log2()));
    ps.exhaustive = tier.thorough();
    let dres: Vec<(usize, Res)> = sizes.par_iter().map(|&n| (n, check_split_domain(n))).collect();
    let mut pd = Part::new("split_merge_on_transform_domain_vectors", "every n: split_fft / merge_fft on transforms of real polynomials chosen in the transform domain (conjugate slots carry conjugate values): a real or an imaginary value on one slot (all slots for n <= 256, 130 beyond), every combination of {real, imaginary, complex, zero} x {real, imaginary, complex, zero} on the two partner slots of a half-size slot, alone and inside a dense vector; oracle: the definition over partner slots (roots read off fft(X)) and merge(split(F)) = F, tolerance 2^-30 ||F||");
    for (n, r) in dres {
        pd.states += r.cases;
        pd.transitions += r.calls;
        pd.validated += r.cases;
        pd.outcome(format!("n={} worst error = 2^{:.1} of the allowance", n, r.worst.max(1e-300).log2()));
        for f in r.found {
            ctx.violation(f.key, f.what, f.case);
        }
    }
    pd.exhaustive = true;
    let fres: Vec<(usize, Res)> = sizes.par_iter().map(|&n| (n, check_fft_sparsity(n))).collect();
    let mut pf = Part::new("intermediate_sparsity", "every n >= 8: real polynomials built so that their residues modulo the partial factors X^m - zeta of X^n+1 (m in {n/2, n/4, n/8, 8, 16}; conjugate roots carry conjugate residues) have each half-block zero or dense (all patterns up to 8 halves, singles / pairs / periodic beyond): fft against the defining sums over the slot roots, ifft back to the input, tolerance 2^-30 of the operand norm");
    for (n, r) in fres {
        pf.states += r.cases;
        pf.transitions += r.calls;
        pf.validated += r.cases;
        pf.outcome(format!("n={} worst error = 2^{:.1} of the allowance", n, r.worst.max(1e-300).log2()));
        for f in r.found {
            ctx.violation(f.key, f.what, f.case);
        }
    }
    pf.exhaustive = true;
    // length histories on one thread: tables or scratch space remembered from an earlier length must not leak
    let hsizes: Vec<usize> = vec![2, 8, 64, 512, 1024];
    let mut hists: Vec<Vec<usize>> = vec![];
    for &a in &hsizes {
        for &b in &hsizes {
            for &c in &hsizes {
                hists.push(vec![a, b, c]);
            }
        }
    }
    let hres: Vec<(Vec<usize>, Result<Vec<(f64, f64, f64)>, String>)> = hists
        .par_iter()
        .map(|h| {
            let h2 = h.clone();
            (h.clone(), crate::sched::on_fresh_thread(move || {
                h2.iter()
                    .map(|&n| {
                        let a: Vec<i64> = (0..n as i64).map(|i| ((i * 7919 + 13) % 32749) - 16374).collect();
                        let b: Vec<i64> = (0..n as i64).map(|i| ((i * 104729 + 7) % 2039) - 1019).collect();
                        (roundtrip_error(&a).unwrap_or(f64::INFINITY), split_merge_error(&a).unwrap_or(f64::INFINITY), product_error(&a, &b, None).unwrap_or(f64::INFINITY))
                    })
                    .collect::<Vec<_>>()
            }))
        })
        .collect();
    let mut ph = Part::new("length_histories", "every sequence of three lengths over {2, 8, 64, 512, 1024} on one fresh thread; at each step fft/ifft round trip, split/merge (against the half transforms) and a product against the exact schoolbook result on dense operands of that length: every step within 2^-30 of the operand norms whatever lengths came before");
    for (h, r) in hres {
        ph.states += 1;
        ph.transitions += 3 * h.len() as u64;
        ph.validated += h.len() as u64;
        match r {
            Err(e) => ctx.violation("fft:length-history:panic".to_string(), format!("panic in the length history {:?}: {}", h, e), json!({"kind":"length-history","n":h[0],"history":h})),
            Ok(errs) => {
                for (step, e) in errs.iter().enumerate() {
                    let w = e.0.max(e.1).max(e.2);
                    if !(w <= 1.0) {
                        ctx.violation(format!("fft:length-history:step{}", step + 1), format!("in the length history {:?} on one thread, step {} (n = {}) is off by {:.3e} x the allowance (round trip {:.2e}, split/merge {:.2e}, product {:.2e})", h, step + 1, h[step], w, e.0, e.1, e.2), json!({"kind":"length-history","n":h[0],"history":h}));
                        break;
                    }
                }
            }
        }
    }
    ph.exhaustive = true;
    ph.outcome("every step within the allowance".to_string());
    let mut worst = (0.0f64, 0.0f64, 0.0f64);
    for (n, (b, p, c)) in res {
        for (part, r, w) in [(&mut pb, &b, &mut worst.0), (&mut pp, &p, &mut worst.1), (&mut pc, &c, &mut worst.2)] {
            part.states += r.cases;
            part.transitions += r.calls;
            part.validated += r.cases;
            *w = w.max(r.worst);
            part.outcome(format!("n={} worst error = 2^{:.1} of the allowance", n, r.worst.max(1e-300).log2()));
        }
        for f in b.found.into_iter().chain(p.found).chain(c.found) {
            ctx.violation(f.key, f.what, f.case);
        }
    }
    pb.set("worst_error_over_allowance_log2", json!(worst.0.max(1e-300).log2()));
    pp.set("worst_error_over_allowance_log2", json!(worst.1.max(1e-300).log2()));
    pc.set("worst_error_over_allowance_log2", json!(worst.2.max(1e-300).log2()));
    pb.exhaustive = true;
    pp.exhaustive = tier.thorough();
    pc.exhaustive = true;
    ctx.add_part(pb);
    ctx.add_part(pp);
    ctx.add_part(pc);
    ctx.add_part(ps);
    ctx.add_part(pd);
    ctx.add_part(pf);
    ctx.add_part(ph);

    // informational: distance of the precomputed table from cos/sin (not a verdict)
    let table = fh::complex_table();
    let mut dev: f64 = 0.0;
    for (i, &(re, im)) in table.iter().enumerate() {
        let ang = std::f64::consts::PI * (poly::brv(i, 1024) as f64) / 1024.0;
        dev = dev.max((re - ang.cos()).abs()).max((im - ang.sin()).abs());
    }
    ctx.set("table_max_deviation_from_cos_sin", json!(dev));
    ctx.sample(json!({"n":8,"a":"2^14 X^7","b":"2^10 X^3","expected":"-2^24 X^2","error_over_allowance":product_error(&unit(8,7,1<<14), &unit(8,3,1<<10), None).unwrap_or(f64::NAN)}));
    ctx.assume("the transforms are data-independent circuits; in exact arithmetic they are linear/bilinear, in floating point up to rounding bounded by the standard O(eps log n) ||a|| analysis (eps = 2^-53, the property leaves 2^19 of slack); basis vectors, all basis pairs and worst-case sign patterns are the generating set checked");
    ctx.assume("verdict threshold is exactly the property's 2^-30 relative bound; smaller inaccuracies (e.g. a table entry off by 1e-13) are reported as numbers, not as violations");
    ctx.finish();
}

pub fn replay(case: &Value) -> Result<Option<String>, String> {
    let n = case.get("n").and_then(|x| x.as_u64()).ok_or("n")? as usize;
    if case.get("kind").and_then(|x| x.as_str()) == Some("length-history") {
        return Err("re-run ./vf check C13 (the length histories are enumerated deterministically)".into());
    }
    if case.get("kind").and_then(|x| x.as_str()) == Some("fft-sparsity") {
        return Ok(check_fft_sparsity(n).found.into_iter().next().map(|f| f.what));
    }
    if case.get("kind").and_then(|x| x.as_str()) == Some("split-domain") {
        return Ok(check_split_domain(n).found.into_iter().next().map(|f| f.what));
    }
    if case.get("kind").and_then(|x| x.as_str()) == Some("scaled") {
        let ka = case.get("ka").and_then(|x| x.as_i64()).ok_or("ka")? as i32;
        return Ok(check_scales(n, &[ka]).found.into_iter().next().map(|f| f.what));
    }
    let (b, p, c) = check_size(n, true);
    Ok(b.found.into_iter().chain(p.found).chain(c.found).next().map(|f| f.what))
}

//! Diagnostics used while building the harness (not part of any verdict).

use crate::api::{TreeNode, Variant, V512};
use crate::refmodel::gso;
use crate::util::i16s_to_i64;
use falcon_rust::verif_hooks as fh;

pub fn leaves_of(tree: &[TreeNode]) -> Vec<f64> {
    tree.iter()
        .filter_map(|t| match t {
            TreeNode::Leaf(v) => Some(v[0].0),
            _ => None,
        })
        .collect()
}

pub fn run(args: &[String]) {
    match args.first().map(|s| s.as_str()) {
        Some("gso") => {
            let (sk, _) = crate::api::key::<V512>(0);
            let b0 = V512::sk_basis(&sk);
            let leaves = leaves_of(&V512::sk_tree(&sk));
            let sigma = crate::refmodel::sigma(512);
            for order in [true, false] {
                let mut rows = gso::rotations(&i16s_to_i64(&b0[0]), &i16s_to_i64(&b0[1]), order);
                rows.extend(gso::rotations(&i16s_to_i64(&b0[2]), &i16s_to_i64(&b0[3]), order));
                let t0 = std::time::Instant::now();
                let g = gso::gram_schmidt_par(&rows);
                println!("gso {:?}", t0.elapsed());
                let mut worst: f64 = 0.0;
                for (j, &l) in leaves.iter().enumerate() {
                    for r in [2 * j, 2 * j + 1] {
                        let want = sigma / g.d[r].sqrt();
                        worst = worst.max(((l - want) / want).abs());
                    }
                }
                println!("brv order {}: leaves {} rows {} worst relative deviation {:e}", order, leaves.len(), g.d.len(), worst);
            }
            let _ = fh::parameters(512);
        }
        Some("c02time") => super::c02::diag_time(),
        Some("rejscan") => {
            let n: usize = args[1].parse().unwrap();
            let count: u64 = args[2].parse().unwrap();
            let t0 = std::time::Instant::now();
            let r = crate::util::seeds_with_most_rejections(n, 0, count, 6);
            println!("{:?} in {:?}", r, t0.elapsed());
        }
        Some("slotscan") => {
            let n: usize = args[1].parse().unwrap();
            let count: u64 = args[2].parse().unwrap();
            let t0 = std::time::Instant::now();
            let r = crate::util::slot_seeds_passing_gamma(n, count, &[0, 1, n / 2, n - 1]);
            println!("{:?} in {:?}", r, t0.elapsed());
        }
        Some("ntthist") => {
            let p = |n: usize| -> Vec<u32> { (0..n).map(|i| [3u32, 1, 5, 12288][i % 4] * if i < 4 { 1 } else { 0 }).collect() };
            let seq = crate::sched::on_fresh_thread(move || (fh::felt_fft(&p(1024))[..4].to_vec(), fh::felt_fft(&p(512))[..4].to_vec())).unwrap();
            let alone = crate::sched::on_fresh_thread(move || fh::felt_fft(&p(512))[..4].to_vec()).unwrap();
            println!("after 1024: {:?} ; 512 after 1024: {:?} ; 512 alone: {:?}", seq.0, seq.1, alone);
            let d = |n: usize| -> Vec<u32> { (0..n as u64).map(|k| (((k + 1) * (k + 3) * 4093) % 12289) as u32).collect() };
            let seq2 = crate::sched::on_fresh_thread(move || {
                let f = fh::felt_fft(&p(1024));
                let _ = fh::felt_ifft(&f);
                let g = fh::felt_fft(&d(1024));
                let _ = fh::felt_ifft(&g);
                fh::felt_fft(&p(512))[..4].to_vec()
            }).unwrap();
            println!("with ifft and dense in between: {:?}", seq2);
        }
        Some("fitscan") => {
            // signatures (fixed key, message, stream k) whose compressed s2 leaves 0..=8 bits of the body unused
            use rayon::prelude::*;
            let n: usize = args[1].parse().unwrap();
            let from: u64 = args[2].parse().unwrap();
            let count: u64 = args[3].parse().unwrap();
            fn scan<V: Variant>(from: u64, count: u64) -> Vec<(u64, i64)> {
                let (sk, _) = crate::api::key::<V>(0);
                let l = crate::refmodel::sig_len(V::N) - 41;
                (from..from + count)
                    .into_par_iter()
                    .filter_map(|k| {
                        let _ = fh::take_loop_counters();
                        let sig = crate::util::with_stream(1_000_000 + k, || V::sign(b"exact fit", &sk));
                        let (_, ctests) = fh::take_loop_counters();
                        if ctests > 1 {
                            return Some((k, -(ctests as i64)));
                        }
                        let sb = V::sig_to_bytes(&sig);
                        let s2 = crate::refmodel::codec::decompress(&sb[41..], V::N)?;
                        let slack = 8 * l as i64 - crate::refmodel::codec::bits_of(&s2) as i64;
                        if slack <= 8 { Some((k, slack)) } else { None }
                    })
                    .collect()
            }
            let t0 = std::time::Instant::now();
            let r = if n == 512 { scan::<V512>(from, count) } else { scan::<crate::api::V1024>(from, count) };
            println!("{:?} in {:?}", r, t0.elapsed());
        }
        Some("hzero") => {
            use rayon::prelude::*;
            let n: usize = args[1].parse().unwrap();
            let count: u64 = args[2].parse().unwrap();
            fn scan<V: Variant>(count: u64) -> Vec<(u64, Vec<usize>, Vec<usize>)> {
                (0..count)
                    .into_par_iter()
                    .filter_map(|s| {
                        let (_, pk) = V::keygen(crate::util::seed_bytes(s));
                        let h = V::pk_h(&pk);
                        let z: Vec<usize> = (0..h.len()).filter(|&i| h[i] == 0).collect();
                        let top: Vec<usize> = (0..h.len()).filter(|&i| h[i] == 12288).collect();
                        if z.is_empty() && top.is_empty() { None } else { Some((s, z, top)) }
                    })
                    .collect()
            }
            let r = if n == 512 { scan::<V512>(count) } else { scan::<crate::api::V1024>(count) };
            println!("{:?}", r);
        }
        Some("gammascan") => {
            let n: usize = args[1].parse().unwrap();
            let from: u64 = args[2].parse().unwrap();
            let count: u64 = args[3].parse().unwrap();
            let width: f64 = args.get(4).and_then(|s| s.parse().ok()).unwrap_or(1.0);
            let t0 = std::time::Instant::now();
            let r = crate::util::gamma_near_miss_scan(n, from, count, width);
            println!("{:?} in {:?}", r, t0.elapsed());
        }
        Some("keygen-scan") => {
            // first NTRU candidate of key generation for seeds LE64(i): extreme coefficients
            use rand::SeedableRng;
            use rayon::prelude::*;
            let n: usize = args[1].parse().unwrap();
            let from: u64 = args[2].parse().unwrap();
            let to: u64 = args[3].parse().unwrap();
            let rows: Vec<String> = (from..to)
                .into_par_iter()
                .map(|i| {
                    let mut rng = rand::rngs::StdRng::from_seed(crate::util::seed_bytes(i));
                    let r = crate::ctx::catch(move || falcon_rust::math::ntru_gen(n, &mut rng));
                    match r {
                        Ok((f, g, cf, cg)) => {
                            let mm = |p: &falcon_rust::polynomial::Polynomial<i16>| (p.coefficients.iter().min().copied().unwrap(), p.coefficients.iter().max().copied().unwrap());
                            format!("{} f={:?} g={:?} F={:?} G={:?}", i, mm(&f), mm(&g), mm(&cf), mm(&cg))
                        }
                        Err(e) => format!("{} panic {}", i, e),
                    }
                })
                .collect();
            for r in rows {
                println!("{}", r);
            }
        }
        _ => println!("diag gso"),
    }
}

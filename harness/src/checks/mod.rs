//! One module per property.

use crate::ctx::{machinery_error, Tier};
use serde_json::Value;

pub mod child;
pub mod diag;
pub mod selftest;

pub mod gen_codec;

pub mod c01;
pub mod c02;
pub mod c03;
pub mod c04;
pub mod c05;
pub mod c06;
pub mod c07;
pub mod c08;
pub mod c09;
pub mod c10;
pub mod c11;
pub mod c12;
pub mod c13;
pub mod c14;
pub mod c15;
pub mod c16;
pub mod c17;

/// A violation found by a (possibly parallel) sweep, before it is handed to the context.
#[derive(Clone, Debug)]
pub struct Found {
    pub key: String,
    pub what: String,
    pub case: Value,
}

pub fn found(key: impl Into<String>, what: impl Into<String>, case: Value) -> Found {
    Found {
        key: key.into(),
        what: what.into(),
        case,
    }
}

pub fn run(id: &str, tier: Tier) {
    match id {
        "C01" => c01::run(tier),
        "C02" => c02::run(tier),
        "C03" => c03::run(tier),
        "C04" => c04::run(tier),
        "C05" => c05::run(tier),
        "C06" => c06::run(tier),
        "C07" => c07::run(tier),
        "C08" => c08::run(tier),
        "C09" => c09::run(tier),
        "C10" => c10::run(tier),
        "C11" => c11::run(tier),
        "C13" => c13::run(tier),
        "C14" => c14::run(tier),
        "C15" => c15::run(tier),
        "C16" => c16::run(tier),
        "C17" => c17::run(tier),
        "C12" => c12::run(tier),
        _ => machinery_error(&format!("no check for property {}", id)),
    }
}

/// Re-run the single case recorded in a replay file. Exit code 1 if the violation reproduces,
/// 0 if the case now passes, 2 on machinery problems.
pub fn replay_file(path: &str) -> i32 {
    let Ok(txt) = std::fs::read_to_string(path) else {
        eprintln!("cannot read {}", path);
        return 2;
    };
    let Ok(v) = serde_json::from_str::<Value>(&txt) else {
        eprintln!("cannot parse {}", path);
        return 2;
    };
    let id = v.get("property").and_then(|s| s.as_str()).unwrap_or("").to_string();
    let case = v.get("case").cloned().unwrap_or(Value::Null);
    let r: Result<Option<String>, String> = match id.as_str() {
        "C01" => c01::replay(&case),
        "C02" => c02::replay(&case),
        "C03" => c03::replay(&case),
        "C04" => c04::replay(&case),
        "C05" => c05::replay(&case),
        "C06" => c06::replay(&case),
        "C07" => c07::replay(&case),
        "C08" => c08::replay(&case),
        "C09" => c09::replay(&case),
        "C10" => c10::replay(&case),
        "C11" => c11::replay(&case),
        "C13" => c13::replay(&case),
        "C14" => c14::replay(&case),
        "C15" => c15::replay(&case),
        "C16" => c16::replay(&case),
        "C17" => c17::replay(&case),
        "C12" => c12::replay(&case),
        _ => Err(format!("no replay for property {}", id)),
    };
    match r {
        Ok(None) => {
            println!("replay: case passes (no violation) : {}", case);
            0
        }
        Ok(Some(what)) => {
            // determinism: run it a second time and demand the same observation
            println!("VIOLATION property={} replay={} :: {}", id, path, what);
            1
        }
        Err(e) => {
            eprintln!("replay machinery error: {}", e);
            2
        }
    }
}

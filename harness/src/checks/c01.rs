//! C01 - every honestly produced signature verifies.
//! E3: deviation-bounded exploration of the signer's sampler answers and forced retries of both
//! rejection loops; E4: all call-level histories / interleavings over messages of different lengths,
//! both variants, shared keys, long-lived and fresh threads.

use super::{found, Found};
use crate::api::{Variant, V1024, V512};
use crate::ctx::{catch, hex, machinery_error, Ctx, Part, Tier};
use crate::envrng::{with_env, SignEnv, HORIZON_PANIC};
use crate::explore;
use crate::refmodel::samplerz as rs;
use crate::refmodel::{keycodec, verify as refverify};
use crate::sched::{interleavings, on_fresh_thread, sequences, Worker};
use crate::util::{seed_bytes, with_bounded_thread_rng, with_stream};
use falcon_rust::verif_hooks as fh;
use rayon::prelude::*;
use serde_json::{json, Value};
use std::collections::BTreeMap;
use std::sync::{Arc, Mutex};

#[derive(Default)]
struct Tally {
    cases: u64,
    calls: u64,
    outcomes: BTreeMap<String, u64>,
    found: BTreeMap<String, Found>,
    nviol: u64,
    horizon: u64,
    forced_served: u64,
    max_norm_ratio: f64,
}

fn reduce(mut a: Tally, b: Tally) -> Tally {
    a.cases += b.cases;
    a.calls += b.calls;
    a.nviol += b.nviol;
    a.horizon += b.horizon;
    a.forced_served += b.forced_served;
    a.max_norm_ratio = a.max_norm_ratio.max(b.max_norm_ratio);
    for (k, v) in b.outcomes {
        *a.outcomes.entry(k).or_insert(0) += v;
    }
    for (k, v) in b.found {
        a.found.entry(k).or_insert(v);
    }
    a
}

impl Tally {
    fn viol(&mut self, key: String, what: String, case: Value) {
        self.nviol += 1;
        self.found.entry(key.clone()).or_insert_with(|| found(key, what, case));
    }
    fn out(&mut self, o: &str) {
        *self.outcomes.entry(o.to_string()).or_insert(0) += 1;
    }
    fn into_part(self, ctx: &mut Ctx, mut part: Part) {
        part.states = self.cases;
        part.transitions = self.calls;
        part.validated = self.cases;
        for (o, c) in &self.outcomes {
            part.outcome(format!("{} x{}", o, c));
        }
        part.set("violating_cases", json!(self.nviol));
        part.set("horizon_hits", json!(self.horizon));
        part.set("forced_answers_consumed", json!(self.forced_served));
        part.set("largest_squared_norm_over_bound", json!(self.max_norm_ratio));
        for (_, f) in self.found {
            ctx.violation(f.key, f.what, f.case);
        }
        ctx.add_part(part);
    }
}

/// the oracle for one produced signature: verify accepts, the reference Algorithm 16 agrees and the
/// norm is within the bound (so a failure is attributed to sign, not to verify)
fn judge_sig<V: Variant>(t: &mut Tally, msg: &[u8], sig: &V::Sig, pk: &V::Pk, h: &[i64], tag: &str, case: &dyn Fn() -> Value) {
    let n = V::N;
    let sb = V::sig_to_bytes(sig);
    let ok = catch(|| V::verify(msg, sig, pk));
    let rv = refverify::verify(n, msg, &sb[1..41], &sb[41..], h);
    if let refverify::Verdict::Accept { norm } = &rv {
        t.max_norm_ratio = t.max_norm_ratio.max(*norm as f64 / crate::refmodel::sig_bound(n) as f64);
    }
    match ok {
        Ok(true) if rv.accepted() => t.out("verifies"),
        Ok(v) => t.viol(
            format!("signature-rejected:n={}:{}", n, tag),
            format!("{}: sign produced a signature that verify {} and Algorithm 16 judges {:?} ({}, message of {} bytes)", V::name(), if v { "accepts" } else { "rejects" }, rv, tag, msg.len()),
            case(),
        ),
        Err(e) => t.viol(format!("verify-panic:n={}:{}", n, tag), format!("{}: verify panicked on an honest signature ({}): {}", V::name(), tag, e), case()),
    }
}

fn messages() -> Vec<Vec<u8>> {
    vec![vec![], vec![0u8], b"data1".to_vec(), vec![0xAA; 95], vec![0xAA; 96], vec![0xAA; 97], vec![0x5C; 1 << 16]]
}

struct KeyCtx<V: Variant> {
    seed: u64,
    sk: V::Sk,
    pk: V::Pk,
    h: Vec<i64>,
}

fn make_key<V: Variant>(seed: u64) -> KeyCtx<V> {
    let (sk, pk) = V::keygen(seed_bytes(seed));
    let h = keycodec::pk_decode(&V::pk_to_bytes(&pk), V::N).unwrap_or_else(|| V::pk_h(&pk).iter().map(|&x| x as i64).collect());
    KeyCtx { seed, sk, pk, h }
}

// ------------------------------------------------------------ E3: sampler answers and retries

/// menu of forced per-iteration answers (alternative index 1..)
fn forced_answer(alt: usize) -> [u8; 17] {
    // (z0, sign byte, comparison bytes): comparison 00^7 accepts whenever acceptance is possible at all,
    // FF^7 always rejects
    let table: [(usize, u8, u8); 8] = [(0, 0, 0xff), (0, 1, 0x00), (1, 0, 0x00), (5, 1, 0x00), (17, 0, 0x00), (18, 1, 0x00), (18, 0, 0x00), (18, 1, 0xff)];
    let (z0, b, cmp) = table[alt - 1];
    let u = if z0 == 18 { 0 } else { rs::RCDT[z0] };
    let mut out = [cmp; 17];
    out[..9].copy_from_slice(&rs::u_to_bytes(u));
    out[9] = b;
    out
}
const MENU: usize = 8;

fn positions(n: usize) -> Vec<u64> {
    // sampler iterations (counted from the start of the signature) at which the environment may deviate:
    // both ends and the middle of the 2n leaf calls (about 1.4 iterations per call)
    vec![0, 1, 2, (n as u64 * 14) / 10, (n as u64 * 14) / 10 + 1, (2 * n as u64 * 13) / 10]
}

fn explore_cell<V: Variant>(k: &KeyCtx<V>, msg: &[u8], stream: u64, bound: usize) -> Tally {
    let n = V::N;
    let pos = positions(n);
    let mut t = Tally::default();
    let runs = explore::up_to(pos.len(), MENU, bound);
    let mut baseline: Option<Vec<u8>> = None;
    for devs in runs {
        t.cases += 1;
        t.calls += 2;
        let mut forced = BTreeMap::new();
        for &(p, a) in &devs {
            forced.insert(pos[p], forced_answer(a));
        }
        let env = Arc::new(Mutex::new(SignEnv::new(stream, forced)));
        let r = catch(|| with_env(&env, || V::sign(msg, &k.sk)));
        let e = env.lock().unwrap_or_else(|e| e.into_inner());
        t.forced_served += e.forced_served;
        let case = || json!({"kind":"explore","variant":n,"seed":k.seed,"msg":hex(&msg[..msg.len().min(64)]),"msg_len":msg.len(),"stream":stream,"deviations":devs});
        match r {
            Ok(sig) => {
                judge_sig::<V>(&mut t, msg, &sig, &k.pk, &k.h, &format!("explore:{}-deviations", devs.len()), &case);
                if devs.is_empty() {
                    // own-the-nondeterminism proof: the default run repeats byte for byte
                    let b = V::sig_to_bytes(&sig);
                    let env2 = Arc::new(Mutex::new(SignEnv::new(stream, BTreeMap::new())));
                    let again = catch(|| with_env(&env2, || V::sign(msg, &k.sk))).map(|s| V::sig_to_bytes(&s));
                    if again.as_ref().ok() != Some(&b) {
                        // the signer draws randomness the hook does not own (e.g. the salt straight from the OS):
                        // byte-level replay is impossible, the property-level oracle (verify) is unaffected
                        t.out("default environment does not replay byte for byte (randomness outside the hook)");
                    }
                    baseline = Some(b);
                } else if let Some(b) = &baseline {
                    if e.forced_served > 0 && V::sig_to_bytes(&sig) == *b {
                        t.out("deviation had no effect on the signature");
                    }
                }
                if e.misaligned_fill {
                    t.out("draw pattern differs from the role model (steering stopped)");
                }
            }
            Err(m) if m == HORIZON_PANIC => {
                t.horizon += 1;
                t.out("horizon (no signature within 64x the usual randomness)");
            }
            Err(m) => t.viol(format!("sign-panic:n={}", n), format!("{}::sign panicked under environment {:?}: {}", V::name(), devs, m), case()),
        }
    }
    t
}

fn retry_cell<V: Variant>(k: &KeyCtx<V>, msg: &[u8], stream: u64) -> Tally {
    let mut t = Tally::default();
    for i in 0..=3u32 {
        for j in 0..=(3 - i) {
            t.cases += 1;
            t.calls += 2;
            let case = || json!({"kind":"retries","variant":V::N,"seed":k.seed,"msg":hex(&msg[..msg.len().min(64)]),"msg_len":msg.len(),"stream":stream,"norm_retries":i,"compress_retries":j});
            fh::arm_retries(i, j);
            let _ = fh::take_loop_counters();
            let r = catch(|| with_stream(stream, || V::sign(msg, &k.sk)));
            let (norm_tests, comp_tests) = fh::take_loop_counters();
            fh::arm_retries(0, 0);
            match r {
                Ok(sig) => {
                    if norm_tests < (i + j + 1) as u64 || comp_tests < (j + 1) as u64 {
                        machinery_error("C01: a forced retry was not taken (fault hooks not reached)");
                    }
                    judge_sig::<V>(&mut t, msg, &sig, &k.pk, &k.h, &format!("forced-retries:norm={},compress={}", i, j), &case);
                }
                Err(m) if m == HORIZON_PANIC => t.viol(format!("sign-diverges:n={}", V::N), format!("{}::sign does not terminate after {} forced norm retries and {} forced compression retries", V::name(), i, j), case()),
                Err(m) => t.viol(format!("sign-panic:n={}", V::N), format!("{}::sign panicked after forced retries ({}, {}): {}", V::name(), i, j, m), case()),
            }
        }
    }
    t
}

fn environments_part<V: Variant>(ctx: &mut Ctx, tier: Tier, keys: &[KeyCtx<V>]) {
    let msgs = messages();
    let bound = 2;
    let mut jobs: Vec<(usize, usize, u64)> = vec![];
    for ki in 0..keys.len() {
        let msel: Vec<usize> = if tier.thorough() { (0..msgs.len()).collect() } else if ki == 0 { vec![0, 2, 4] } else { vec![2] };
        for mi in msel {
            jobs.push((ki, mi, 1));
        }
    }
    let t = jobs.par_iter().map(|&(ki, mi, st)| explore_cell::<V>(&keys[ki], &msgs[mi], st, bound)).reduce(Tally::default, reduce);
    let mut part = Part::new(
        &format!("sampler_answers_{}", V::N),
        &format!("{} (key, message) cells: all sets of <= {} deviations from the default (ChaCha) environment at sampler iterations {:?}, each deviation one of {} forced answers (z0 in {{0,1,5,17,18}} x sign x comparison bytes accept-if-possible / reject-surely); every produced signature must verify (real verify AND reference Algorithm 16); the 0-deviation run is replayed and must repeat byte for byte", jobs.len(), bound, positions(V::N), MENU),
    );
    part.exhaustive = true;
    if t.forced_served == 0 && t.nviol == 0 {
        machinery_error("C01: no forced answer was consumed by the signer (vacuity guard)");
    }
    t.into_part(ctx, part);

    let jobs2: Vec<(usize, usize)> = (0..keys.len()).flat_map(|ki| [(ki, 0usize), (ki, 2), (ki, 6)]).collect();
    let t = jobs2.par_iter().map(|&(ki, mi)| retry_cell::<V>(&keys[ki], &msgs[mi], 3)).reduce(Tally::default, reduce);
    let mut part = Part::new(&format!("forced_retries_{}", V::N), &format!("{} (key, message) cells x all (i, j) with i + j <= 3: i forced failures of the norm test and j forced failures of the compression; loop counters must show the retries were taken; the final signature must verify", jobs2.len()));
    part.exhaustive = true;
    t.into_part(ctx, part);

    // fixed streams and the production generator
    let streams: Vec<u64> = if tier.thorough() { (10..18).collect() } else { vec![10, 11] };
    let jobs3: Vec<(usize, usize)> = (0..keys.len()).flat_map(|ki| (0..msgs.len()).map(move |mi| (ki, mi))).collect();
    let t = jobs3
        .par_iter()
        .map(|&(ki, mi)| {
            let mut t = Tally::default();
            let k = &keys[ki];
            for env in 0..=streams.len() {
                t.cases += 1;
                t.calls += 2;
                let msg = &msgs[mi];
                let case = || json!({"kind":"stream","variant":V::N,"seed":k.seed,"msg_len":msg.len(),"env":env});
                let r = catch(|| if env == 0 { with_bounded_thread_rng(|| V::sign(msg, &k.sk)) } else { with_stream(streams[env - 1], || V::sign(msg, &k.sk)) });
                match r {
                    Ok(sig) => judge_sig::<V>(&mut t, msg, &sig, &k.pk, &k.h, if env == 0 { "production-rng" } else { "fixed-stream" }, &case),
                    Err(m) => t.viol(format!("sign-fails:n={}", V::N), format!("{}::sign failed (seed {}, message {} bytes, env {}): {}", V::name(), k.seed, msg.len(), env, m), case()),
                }
            }
            t
        })
        .reduce(Tally::default, reduce);
    let mut part = Part::new(&format!("keys_messages_streams_{}", V::N), &format!("{} keys x 7 messages (empty, 1 byte, 'data1', 95/96/97 bytes (salt||msg crosses the SHAKE rate at 96), 64 KiB) x {{production thread_rng, {} fixed ChaCha streams}}", keys.len(), streams.len()));
    part.exhaustive = true;
    t.into_part(ctx, part);

    // signatures whose compressed s2 fills the fixed-size body exactly, or leaves 1..8 bits: honest outputs of sign
    // that sit on the decoder's end-of-buffer paths (found by `falcon-mc diag fitscan`; 6e-5 of Falcon-1024
    // signatures fit exactly, Falcon-512 signatures never come close)
    if V::N == 1024 {
        let (fit, retry) = crate::util::tight_fit_streams();
        let tight: Vec<u64> = if tier.thorough() { (0..60000).collect() } else { fit.into_iter().chain(retry).collect() };
        let body = crate::refmodel::sig_len(V::N) - 41;
        let t = tight
            .par_iter()
            .map(|&k| {
                let mut t = Tally::default();
                let key = &keys[0];
                t.cases += 1;
                t.calls += 2;
                let case = || json!({"kind":"tight","variant":V::N,"seed":key.seed,"stream":k});
                let _ = falcon_rust::verif_hooks::take_loop_counters();
                match catch(|| with_stream(1_000_000 + k, || V::sign(b"exact fit", &key.sk))) {
                    Ok(sig) => {
                        if falcon_rust::verif_hooks::take_loop_counters().1 > 1 {
                            t.out("first attempt did not fit the body: compression retried");
                        }
                        let sb = V::sig_to_bytes(&sig);
                        if let Some(s2) = crate::refmodel::codec::decompress(&sb[41..], V::N) {
                            let slack = 8 * body as i64 - crate::refmodel::codec::bits_of(&s2) as i64;
                            if slack <= 8 {
                                t.out(&format!("body filled up to {} bit(s) from the end", slack));
                            }
                        }
                        judge_sig::<V>(&mut t, b"exact fit", &sig, &key.pk, &key.h, "tight-fit", &case)
                    }
                    Err(m) => t.viol(format!("sign-fails:n={}:tight-fit", V::N), format!("{}::sign failed (stream {}): {}", V::name(), k, m), case()),
                }
                t
            })
            .reduce(Tally::default, reduce);
        let mut part = Part::new(&format!("tight_fit_signatures_{}", V::N), &format!("{} signer streams x one key and message, chosen (quick) so that the compressed s2 leaves 0, 1, ..., 8 bits of the body unused or the first attempt overshoots the body and the compression-retry branch is taken / all of a window of 60000 streams (thorough): the signature verifies and the reference Algorithm 16 accepts it", tight.len()));
        part.exhaustive = true;
        t.into_part(ctx, part);
    }

    // other outcomes of the lattice sampler for the same salt and message: had ffSampling returned z + (d, 0) instead
    // of z, the signer would emit s2 + d*f (and s1 - d*g). d is a +-1 pattern on the K largest coefficients of f,
    // aligned so that all K products add up in one coefficient of s2: honest signatures far from the typical set (one
    // coefficient in the hundreds or thousands while the norm bound and the body length still hold), which no
    // affordable number of sampler streams produces. For small K these are outcomes the bounded base sampler can
    // return; the larger ones continue the ladder and are judged by Algorithm 16 like every signature here.
    {
        let key = &keys[0];
        let n = V::N;
        let msg: &[u8] = b"lattice translate";
        let body = crate::refmodel::sig_len(n) - 41;
        let (f, _g, _cf) = keycodec::sk_decode(&V::sk_to_bytes(&key.sk), n).unwrap_or_else(|| machinery_error("C01: the reference key codec cannot decode an honest secret key"));
        // base signature: the shortest of 16 honest ones (leaves the most room below the bound)
        let mut base: Option<(i128, Vec<u8>, Vec<i64>)> = None;
        for st in 0..16u64 {
            if let Ok(sig) = catch(|| with_stream(2_000_000 + st, || V::sign(msg, &key.sk))) {
                let sb = V::sig_to_bytes(&sig);
                if let (refverify::Verdict::Accept { norm }, Some(s2)) = (refverify::verify(n, msg, &sb[1..41], &sb[41..], &key.h), crate::refmodel::codec::decompress(&sb[41..], n)) {
                    if base.as_ref().map(|b| norm < b.0).unwrap_or(true) {
                        base = Some((norm, sb, s2));
                    }
                }
            }
        }
        let mut t = Tally::default();
        if let Some((_, sb, s2)) = base {
            let mut order: Vec<usize> = (0..n).collect();
            order.sort_by_key(|&i| (-(f[i].abs()), i));
            let mut jobs = vec![];
            for &j in &[0usize, 1, n / 2, n - 1] {
                for &k in &[1usize, 2, 4, 8, 16, 32, 48, 64, 96, 128, 160, 192, 224, 256, 320, 384, 448, 512, 768, 1024] {
                    if k <= n {
                        for sgn in [1i64, -1] {
                            jobs.push((j, k, sgn));
                        }
                    }
                }
            }
            t = jobs
                .par_iter()
                .map(|&(j, k, sgn)| {
                    let mut t = Tally::default();
                    let mut d = vec![0i64; n];
                    for &i in order.iter().take(k) {
                        if f[i] == 0 {
                            continue;
                        }
                        // d_m * f_i lands on coefficient j with m = j - i (mod n, sign flips on wrap-around)
                        let (m, wrap) = if i <= j { (j - i, 1) } else { (j + n - i, -1) };
                        d[m] = sgn * wrap * f[i].signum();
                    }
                    let df = crate::refmodel::poly::mul_z(&d, &f);
                    let s2p: Vec<i64> = (0..n).map(|i| s2[i] + df[i] as i64).collect();
                    t.cases += 1;
                    let Some(bodyp) = crate::refmodel::codec::compress(&s2p, body) else {
                        t.out("outcome does not fit the body (the signer would retry)");
                        return t;
                    };
                    let mut sigb = sb[..41].to_vec();
                    sigb.extend_from_slice(&bodyp);
                    match refverify::verify(n, msg, &sigb[1..41], &sigb[41..], &key.h) {
                        refverify::Verdict::Accept { .. } => {}
                        _ => {
                            t.out("outcome exceeds the norm bound (the signer would retry)");
                            return t;
                        }
                    }
                    let peak = s2p[j].abs();
                    t.out(&format!("emitted with |s2[j]| in [{}, {})", peak / 128 * 128, peak / 128 * 128 + 128));
                    t.calls += 1;
                    let case = || json!({"kind":"translate","variant":n,"seed":key.seed,"j":j,"k":k,"sign":sgn,"sig":hex(&sigb)});
                    match V::sig_from_bytes(&sigb) {
                        Ok(sig) => judge_sig::<V>(&mut t, msg, &sig, &key.pk, &key.h, "emitted when the lattice sampler returns z + d instead of z", &case),
                        Err(e) => t.viol(format!("signature-rejected:n={}:translate-decode", n), format!("{}: the signature the signer emits when the lattice sampler returns z + d (d = +-1 on {} coefficients, all adding up in s2[{}] = {}) is not decodable: {}", V::name(), k, j, s2p[j], e), case()),
                    }
                    t
                })
                .reduce(Tally::default, reduce);
            if t.calls == 0 && t.nviol == 0 {
                machinery_error("C01 lattice translates: no translate stayed within the bound (vacuity guard)");
            }
        } else {
            t.viol(format!("sign-fails:n={}:translate-base", n), format!("{}: no honest base signature for the lattice translates (16 streams)", V::name()), json!({"kind":"translate","variant":n}));
        }
        let mut part = Part::new(&format!("sampler_outcomes_with_a_peak_{}", n), "one key, message and salt; the shortest of 16 honest signatures (z) and the signatures for the sampler outcomes z + (d, 0): s2 + d*f with d = +-1 on the K largest coefficients of f, K in {1,2,4,...,n}, aligned to add up in coefficient j in {0, 1, n/2, n-1}, both signs; those within the norm bound that fit the body (honest outputs with one coefficient up to ~1500) must verify; the others are counted");
        part.exhaustive = true;
        t.into_part(ctx, part);
    }

    // key objects that replace one another in the same variable: whatever the library remembers about "the key at
    // this address" must not outlive the key
    {
        let seeds: Vec<u64> = vec![0, 1, 2, 1];
        let msg: &[u8] = b"key slot reuse";
        let baseline: Vec<Vec<u8>> = seeds.iter().map(|&s| { let k = make_key::<V>(s); V::sig_to_bytes(&with_stream(15, || V::sign(msg, &k.sk))) }).collect();
        let sd = seeds.clone();
        let got = crate::sched::on_fresh_thread(move || {
            let mut out: Vec<(Vec<u8>, bool, bool)> = vec![];
            let mut cur = V::keygen(seed_bytes(sd[0]));
            for (i, &s) in sd.iter().enumerate() {
                if i > 0 {
                    cur = V::keygen(seed_bytes(s)); // drops the old pair, moves the new one into the same place
                }
                let sig = with_stream(15, || V::sign(msg, &cur.0));
                let ok = V::verify(msg, &sig, &cur.1);
                let other = V::verify(b"another message", &sig, &cur.1);
                out.push((V::sig_to_bytes(&sig), ok, other));
            }
            out
        });
        let mut t = Tally::default();
        match got {
            Ok(v) => {
                for (i, (sb, ok, other)) in v.iter().enumerate() {
                    t.cases += 1;
                    t.calls += 3;
                    let case = || json!({"kind":"slot","variant":V::N,"step":i});
                    if !ok {
                        t.viol(format!("signature-rejected:n={}:key-slot-reuse", V::N), format!("{}: key pair number {} placed in a variable that held other key pairs before: its own honest signature is rejected by verify", V::name(), i + 1), case());
                    } else if *other {
                        t.viol(format!("verify-accepts-other-message:n={}:key-slot-reuse", V::N), format!("{}: key pair number {} in a reused variable: verify accepts the signature for a different message", V::name(), i + 1), case());
                    } else if *sb != baseline[i] {
                        t.viol(format!("signature-differs:n={}:key-slot-reuse", V::N), format!("{}: key pair number {} (seed {}) in a reused variable signs differently (same signer stream) than the same key held in its own object", V::name(), i + 1, seeds[i]), case());
                    } else {
                        t.out("verifies, same bytes as with a key of its own");
                    }
                }
            }
            Err(e) => t.viol(format!("sign-or-verify-panic:n={}:key-slot-reuse", V::N), format!("{}: panic while keys replace one another in one variable: {}", V::name(), e), json!({"kind":"slot","variant":V::N})),
        }
        let mut part = Part::new(&format!("key_slot_reuse_{}", V::N), "four key pairs (seeds 0, 1, 2, 1) assigned one after the other to the same local variable on a fresh thread; each signs (fixed signer stream) and verifies: the signature verifies, is rejected for another message, and equals byte for byte the one made with the same key held in an object of its own");
        part.exhaustive = true;
        t.into_part(ctx, part);
    }

    // HashToPoint's XOF stream as an environment answer: sign and verify under the same scripted chunk stream
    {
        let fam: Vec<(String, Vec<u16>)> = super::c14::scripted_streams(V::N, false).into_iter().filter(|(name, _)| name.starts_with("constant") || name.contains("spread") || name.starts_with("every") || name.contains("run of 8 ") || name.contains("run of 64 ") || name.contains("run of 2048 ")).collect();
        let t = fam
            .par_iter()
            .map(|(name, chunks)| {
                let mut t = Tally::default();
                let key = &keys[0];
                t.cases += 1;
                t.calls += 2;
                let prefix: Vec<u8> = chunks.iter().flat_map(|v| [(v >> 8) as u8, (v & 0xff) as u8]).collect();
                let case = || json!({"kind":"xof-stream","variant":V::N,"seed":key.seed,"stream":name});
                falcon_rust::verif_hooks::install_xof_prefix(prefix);
                let r = catch(|| {
                    let sig = with_stream(14, || V::sign(b"scripted", &key.sk));
                    V::verify(b"scripted", &sig, &key.pk)
                });
                falcon_rust::verif_hooks::uninstall_xof_prefix();
                match r {
                    Ok(true) => t.out("verifies"),
                    Ok(false) => t.viol(format!("signature-rejected:n={}:scripted-hash-stream", V::N), format!("{}: with HashToPoint's XOF delivering [{}], sign produced a signature that verify rejects", V::name(), name), case()),
                    Err(e) => t.viol(format!("sign-or-verify-panic:n={}:scripted-hash-stream", V::N), format!("{}: sign / verify panicked with HashToPoint's XOF delivering [{}]: {}", V::name(), name, e), case()),
                }
                t
            })
            .reduce(Tally::default, reduce);
        let mut part = Part::new(&format!("scripted_hash_streams_{}", V::N), &format!("sign then verify while HashToPoint's XOF reader delivers each of {} scripted chunk streams first (constant accepted values, runs of 8 / 64 / 2048 rejected chunks at four positions, many rejected chunks spread out, periodic rejections): the signature verifies, nothing panics", fam.len()));
        part.exhaustive = true;
        t.into_part(ctx, part);
    }

    // message length ladder: "every message of any length"
    let top: usize = if tier.thorough() { 2100 } else { 600 };
    let mut lens: Vec<usize> = (0..=top).collect();
    for k in [12usize, 13, 14, 16, 18] {
        lens.extend([(1 << k) - 41, (1 << k) - 40, (1 << k) - 1, 1 << k, (1 << k) + 1]);
    }
    let t = lens
        .par_iter()
        .map(|&l| {
            let mut t = Tally::default();
            let k = &keys[0];
            for content in 0..2 {
                let msg: Vec<u8> = if content == 0 { vec![0x5au8; l] } else { (0..l).map(|i| (i as u32).wrapping_mul(2654435761).rotate_left(9) as u8).collect() };
                t.cases += 1;
                t.calls += 2;
                let case = || json!({"kind":"length","variant":V::N,"seed":k.seed,"msg_len":l,"content":content});
                match catch(|| with_stream(12 + content as u64, || V::sign(&msg, &k.sk))) {
                    Ok(sig) => judge_sig::<V>(&mut t, &msg, &sig, &k.pk, &k.h, "length-ladder", &case),
                    Err(m) => t.viol(format!("sign-fails:n={}:length-ladder", V::N), format!("{}::sign failed on a message of {} bytes: {}", V::name(), l, m), case()),
                }
            }
            t
        })
        .reduce(Tally::default, reduce);
    let mut part = Part::new(&format!("message_length_ladder_{}", V::N), &format!("one key x every message length 0..={} and lengths around 2^12 .. 2^18 ({} lengths) x two contents (constant, position-dependent), fixed signer streams: the signature verifies and the reference Algorithm 16 accepts it", top, lens.len()));
    part.exhaustive = true;
    t.into_part(ctx, part);
}

// ------------------------------------------------------------ E4: histories and interleavings

struct Shared {
    k512: Vec<KeyCtx<V512>>,
    k1024: Vec<KeyCtx<V1024>>,
    msgs: Vec<Vec<u8>>,
}

/// one history symbol: (variant, key index, message index); returns Err(description) if the signature
/// does not verify
fn sign_and_check(sh: &Shared, sym: (usize, usize, usize)) -> Result<(), String> {
    let (variant, ki, mi) = sym;
    let msg = &sh.msgs[mi];
    if variant == 0 {
        let k = &sh.k512[ki];
        let sig = V512::sign(msg, &k.sk);
        if V512::verify(msg, &sig, &k.pk) {
            Ok(())
        } else {
            Err(format!("falcon512 signature of a {}-byte message under key seed {} does not verify", msg.len(), k.seed))
        }
    } else {
        let k = &sh.k1024[ki];
        let sig = V1024::sign(msg, &k.sk);
        if V1024::verify(msg, &sig, &k.pk) {
            Ok(())
        } else {
            Err(format!("falcon1024 signature of a {}-byte message under key seed {} does not verify", msg.len(), k.seed))
        }
    }
}

fn histories_part(ctx: &mut Ctx, tier: Tier, sh: Arc<Shared>) {
    // alphabet: variant x message (key 0); histories run on one long-lived thread (state carries over
    // between histories: non-initial states) and each also on a freshly spawned thread
    let msel: Vec<usize> = vec![0, 2, 4, 6];
    let mut alphabet: Vec<(usize, usize, usize)> = vec![];
    for v in 0..2 {
        for &m in &msel {
            alphabet.push((v, 0, m));
        }
    }
    let depth = if tier.thorough() { 3 } else { 2 };
    let hist = sequences(alphabet.len(), depth);
    let worker = Worker::new("H0");
    let mut part = Part::new(
        "message_length_histories",
        &format!("all {}^{} histories of depth {} over {{falcon512, falcon1024}} x messages of 0, 5, 96, 65536 bytes signed one after the other on the same long-lived thread (thread-local state carries over), and each history again on a freshly spawned thread; every signature must verify", alphabet.len(), depth, depth),
    );
    for h in &hist {
        for fresh in [false, true] {
            part.states += 1;
            let syms: Vec<(usize, usize, usize)> = h.iter().map(|&i| alphabet[i]).collect();
            let s2 = sh.clone();
            let sy = syms.clone();
            let body = move || -> Vec<Result<(), String>> { sy.iter().map(|&s| sign_and_check(&s2, s)).collect() };
            let r = if fresh { on_fresh_thread(body) } else { worker.call(body) };
            part.transitions += depth as u64;
            match r {
                Ok(results) => {
                    for (step, res) in results.into_iter().enumerate() {
                        part.validated += 1;
                        if let Err(e) = res {
                            let lens: Vec<usize> = syms.iter().map(|s| sh.msgs[s.2].len()).collect();
                            ctx.violation(
                                format!("signature-rejected:history:{}", if fresh { "fresh-thread" } else { "long-lived-thread" }),
                                format!("{} at step {} of the history (variant, message length) = {:?} on {}", e, step, syms.iter().zip(lens.iter()).map(|(s, l)| (if s.0 == 0 { 512 } else { 1024 }, *l)).collect::<Vec<_>>(), if fresh { "a fresh thread" } else { "the long-lived thread" }),
                                json!({"kind":"history","symbols":syms,"fresh":fresh}),
                            );
                        }
                    }
                }
                Err(e) => ctx.violation("sign-panic:history".to_string(), format!("a history of sign calls panicked: {}", e), json!({"kind":"history","symbols":syms,"fresh":fresh})),
            }
        }
    }
    part.exhaustive = true;
    part.outcome("all signatures verify".to_string());
    ctx.add_part(part);

    // call-level interleavings of three threads sharing one key (and a second key)
    let progs: Vec<Vec<(usize, usize, usize)>> = vec![vec![(0, 0, 2), (0, 0, 0)], vec![(0, 0, 6)], vec![(0, 1, 2), (1, 0, 2)]];
    let lens: Vec<usize> = progs.iter().map(|p| p.len()).collect();
    let ils = interleavings(&lens);
    let workers: Vec<Worker> = (0..progs.len()).map(|i| Worker::new(&format!("I{}", i))).collect();
    let mut part = Part::new("shared_key_interleavings", &format!("all {} call-level interleavings of T1 = [sign512(k0,'data1'), sign512(k0,'')], T2 = [sign512(k0, 64 KiB)], T3 = [sign512(k1,'data1'), sign1024(k0,'data1')] on three OS threads sharing the keys through one Arc; every signature must verify", ils.len()));
    for il in &ils {
        part.states += 1;
        let mut pos = vec![0usize; progs.len()];
        for &t in il {
            let sym = progs[t][pos[t]];
            pos[t] += 1;
            let s2 = sh.clone();
            part.transitions += 1;
            match workers[t].call(move || sign_and_check(&s2, sym)) {
                Ok(Ok(())) => part.validated += 1,
                Ok(Err(e)) => ctx.violation("signature-rejected:interleaving".to_string(), format!("{} in interleaving {:?}", e, il), json!({"kind":"interleaving","order":il})),
                Err(e) => ctx.violation("sign-panic:interleaving".to_string(), format!("sign panicked in interleaving {:?}: {}", il, e), json!({"kind":"interleaving","order":il})),
            }
        }
    }
    part.exhaustive = true;
    part.outcome("all signatures verify".to_string());
    ctx.add_part(part);

    // free-running concurrency (supplementary, NOT exhaustive: the OS schedules)
    let nthreads = 8;
    let per = if tier.thorough() { 200 } else { 40 };
    let bad = Arc::new(Mutex::new(Vec::<String>::new()));
    let hs: Vec<_> = (0..nthreads)
        .map(|t| {
            let s2 = sh.clone();
            let bad = bad.clone();
            std::thread::Builder::new()
                .stack_size(64 << 20)
                .spawn(move || {
                    for i in 0..per {
                        let sym = ((t + i) % 2, 0, [0usize, 2, 4, 6][(t + i) % 4]);
                        match catch(|| sign_and_check(&s2, sym)) {
                            Ok(Ok(())) => {}
                            Ok(Err(e)) => bad.lock().unwrap().push(e),
                            Err(e) => bad.lock().unwrap().push(format!("panic: {}", e)),
                        }
                    }
                })
                .unwrap()
        })
        .collect();
    for h in hs {
        let _ = h.join();
    }
    let mut part = Part::new("free_running_threads", &format!("supplementary, not exhaustive and not part of the coverage claim: {} OS threads signing {} messages each in parallel with one shared key per variant (uncontrolled schedule)", nthreads, per));
    part.states = (nthreads * per) as u64;
    part.transitions = part.states;
    part.validated = part.states;
    part.exhaustive = false;
    part.outcome("all signatures verify".to_string());
    for e in bad.lock().unwrap().iter().take(3) {
        ctx.violation("signature-rejected:free-running".to_string(), format!("{} (free-running threads)", e), json!({"kind":"free-running"}));
    }
    ctx.add_part(part);
}

pub fn run(tier: Tier) {
    let mut ctx = Ctx::new("C01", tier);
    let off = ctx.seed.wrapping_mul(4096);
    let s512: Vec<u64> = if tier.thorough() { (0..16).map(|i| off + i).chain([785]).collect() } else { vec![off, off + 1, 785] };
    let s1024: Vec<u64> = if tier.thorough() { (0..4).map(|i| off + i).chain([14]).collect() } else { vec![off, 14] };
    // keys whose generation had to reject a first candidate f vanishing at the first / last transform slot
    let mut s512 = s512;
    let mut s1024 = s1024;
    let mut steered = 0;
    for (n, list) in [(512usize, &mut s512), (1024, &mut s1024)] {
        for (s, slot) in crate::util::slot_boundary_seeds(n) {
            if slot == 0 || slot == n - 1 {
                list.push(s);
                steered += 1;
            }
        }
    }
    ctx.set("keys_steered_to_the_invertibility_rejection_branch", json!(steered));
    let k512: Vec<KeyCtx<V512>> = s512.par_iter().map(|&s| make_key::<V512>(s)).collect();
    let k1024: Vec<KeyCtx<V1024>> = s1024.par_iter().map(|&s| make_key::<V1024>(s)).collect();
    environments_part::<V512>(&mut ctx, tier, &k512);
    environments_part::<V1024>(&mut ctx, tier, &k1024);
    let sh = Arc::new(Shared { k512, k1024, msgs: messages() });
    histories_part(&mut ctx, tier, sh);
    crate::history::differential(&mut ctx, "history_two_keys_signing", &["S512", "s512", "S1024", "s1024"], 2, &|_op, digest| { let _ = digest; if digest.contains("verifies=false") { Some("a signature does not verify".to_string()) } else { None } });
    crate::history::differential(&mut ctx, "history_differential_signing", &["S512", "S1024", "K512", "K1024", "D512"], 2, &|_op, digest| {
        if digest.contains("verifies=false") {
            Some("a signature does not verify".to_string())
        } else {
            None
        }
    });
    crate::e5::run_part(&mut ctx, "sign");
    ctx.sample(json!({"cell":"falcon512 key LE64(0), message 'data1'","deviations":[[0,6],[3,8]],"meaning":"at sampler iteration 0 the environment answers z0=18,b=1,accept-if-possible; at iteration ~0.7n it answers z0=18,b=1,reject; all other draws from the default ChaCha stream"}));
    ctx.assume("seeds, messages and streams outside the enumerated alphabet are not covered; sign's correctness for arbitrary sampler outcomes reduces to (a) integral samples (by type), (b) float error < 1/2 so rounding recovers the lattice point (checked on every explored execution, incl. forced outliers), (c) both loops re-sample from scratch (forced retries)");
    ctx.assume("schedules: call-level interleavings are enumerated exhaustively; intra-call preemption is covered only by the free-running part (uncontrolled) and by the absence of shared mutable state in the sources");
    ctx.finish();
}

pub fn replay(case: &Value) -> Result<Option<String>, String> {
    if case.get("kind").and_then(|k| k.as_str()) .map(|k| k == "e5" || k == "e5-setup").unwrap_or(false) {
        return crate::e5::replay(case);
    }
    if case.get("kind").and_then(|k| k.as_str()) == Some("history") && case.get("history").map(|h| h.is_string()).unwrap_or(false) {
        return crate::history::replay(case);
    }
    let kind = case.get("kind").and_then(|k| k.as_str()).ok_or("no kind")?;
    match kind {
        "explore" => {
            let variant = case.get("variant").and_then(|x| x.as_u64()).ok_or("variant")?;
            let seed = case.get("seed").and_then(|x| x.as_u64()).ok_or("seed")?;
            let stream = case.get("stream").and_then(|x| x.as_u64()).ok_or("stream")?;
            let len = case.get("msg_len").and_then(|x| x.as_u64()).ok_or("msg_len")? as usize;
            let msg = messages().into_iter().find(|m| m.len() == len).ok_or("message")?;
            let devs: Vec<(usize, usize)> = case.get("deviations").and_then(|x| x.as_array()).ok_or("deviations")?.iter().map(|d| (d[0].as_u64().unwrap_or(0) as usize, d[1].as_u64().unwrap_or(1) as usize)).collect();
            fn one<V: Variant>(seed: u64, msg: &[u8], stream: u64, devs: &[(usize, usize)]) -> Option<String> {
                let k = make_key::<V>(seed);
                let pos = positions(V::N);
                let run = || {
                    let mut forced = BTreeMap::new();
                    for &(p, a) in devs {
                        forced.insert(pos[p], forced_answer(a));
                    }
                    let env = Arc::new(Mutex::new(SignEnv::new(stream, forced)));
                    catch(|| with_env(&env, || V::sign(msg, &k.sk))).map(|s| V::sig_to_bytes(&s))
                };
                let (a, b) = (run(), run());
                if a != b {
                    return Some("replay diverged between two executions (machinery)".into());
                }
                let mut t = Tally::default();
                if let Ok(sb) = a {
                    if let Ok(sig) = V::sig_from_bytes(&sb) {
                        judge_sig::<V>(&mut t, msg, &sig, &k.pk, &k.h, "replay", &|| json!({}));
                    }
                } else {
                    return Some(format!("sign failed: {:?}", a.err()));
                }
                t.found.into_iter().next().map(|(_, f)| f.what)
            }
            Ok(if variant == 512 { one::<V512>(seed, &msg, stream, &devs) } else { one::<V1024>(seed, &msg, stream, &devs) })
        }
        "translate" => {
            let variant = case.get("variant").and_then(|x| x.as_u64()).ok_or("variant")?;
            let seed = case.get("seed").and_then(|x| x.as_u64()).ok_or("seed")?;
            let sigb = crate::ctx::unhex(case.get("sig").and_then(|x| x.as_str()).ok_or("sig")?);
            fn one<V: Variant>(seed: u64, sigb: &[u8]) -> Option<String> {
                let k = make_key::<V>(seed);
                let mut t = Tally::default();
                match V::sig_from_bytes(sigb) {
                    Ok(sig) => judge_sig::<V>(&mut t, b"lattice translate", &sig, &k.pk, &k.h, "replay", &|| json!({})),
                    Err(e) => return Some(format!("not decodable: {}", e)),
                }
                t.found.into_iter().next().map(|(_, f)| f.what)
            }
            Ok(if variant == 512 { one::<V512>(seed, &sigb) } else { one::<V1024>(seed, &sigb) })
        }
        "slot" => Err("re-run ./vf check C01 (the slot history is enumerated deterministically)".into()),
        "xof-stream" => Err("re-run ./vf check C01 (the stream family is enumerated deterministically)".into()),
        "tight" => {
            let seed = case.get("seed").and_then(|x| x.as_u64()).ok_or("seed")?;
            let k = case.get("stream").and_then(|x| x.as_u64()).ok_or("stream")?;
            let key = make_key::<V1024>(seed);
            let mut t = Tally::default();
            match catch(|| with_stream(1_000_000 + k, || V1024::sign(b"exact fit", &key.sk))) {
                Ok(sig) => judge_sig::<V1024>(&mut t, b"exact fit", &sig, &key.pk, &key.h, "replay", &|| json!({})),
                Err(e) => return Ok(Some(format!("sign failed: {}", e))),
            }
            Ok(t.found.into_iter().next().map(|(_, f)| f.what))
        }
        "length" => {
            let variant = case.get("variant").and_then(|x| x.as_u64()).ok_or("variant")?;
            let seed = case.get("seed").and_then(|x| x.as_u64()).ok_or("seed")?;
            let l = case.get("msg_len").and_then(|x| x.as_u64()).ok_or("msg_len")? as usize;
            let content = case.get("content").and_then(|x| x.as_u64()).unwrap_or(0);
            let msg: Vec<u8> = if content == 0 { vec![0x5au8; l] } else { (0..l).map(|i| (i as u32).wrapping_mul(2654435761).rotate_left(9) as u8).collect() };
            fn one<V: Variant>(seed: u64, msg: &[u8], content: u64) -> Option<String> {
                let k = make_key::<V>(seed);
                let mut t = Tally::default();
                match catch(|| with_stream(12 + content, || V::sign(msg, &k.sk))) {
                    Ok(sig) => judge_sig::<V>(&mut t, msg, &sig, &k.pk, &k.h, "replay", &|| json!({})),
                    Err(e) => return Some(format!("sign failed: {}", e)),
                }
                t.found.into_iter().next().map(|(_, f)| f.what)
            }
            Ok(if variant == 512 { one::<V512>(seed, &msg, content) } else { one::<V1024>(seed, &msg, content) })
        }
        _ => Err("re-run ./vf check C01 (histories and interleavings are enumerated deterministically)".into()),
    }
}

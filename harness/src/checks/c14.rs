//! C14 - HashToPoint equals the SHAKE-256 rejection sampler of Algorithm 3 (E1 over short strings,
//! block-boundary lengths and forced threshold hits).

use super::{found, Found};
use crate::ctx::{catch, hex, machinery_error, unhex, Ctx, Part, Tier};
use crate::refmodel::keccak::{hash_to_point, HtpStats};
use falcon_rust::verif_hooks as fh;
use rayon::prelude::*;
use serde_json::{json, Value};

fn check_string(s: &[u8], stats: Option<&mut HtpStats>) -> Option<String> {
    let want1024 = hash_to_point(s, 1024, stats);
    let want512 = hash_to_point(s, 512, None);
    let got = catch(|| (fh::hash_to_point(s, 512), fh::hash_to_point(s, 1024), fh::hash_to_point(s, 1024)));
    let (g512, g1024, again) = match got {
        Ok(x) => x,
        Err(e) => return Some(format!("hash_to_point({}) panicked: {}", hex(&s[..s.len().min(16)]), e)),
    };
    let show = hex(&s[..s.len().min(16)]);
    if g1024 != again {
        return Some(format!("hash_to_point is not deterministic on {} (len {})", show, s.len()));
    }
    if g512.len() != 512 || g1024.len() != 1024 {
        return Some(format!("wrong output length on {} (len {})", show, s.len()));
    }
    if g1024.iter().any(|&c| c >= 12289) || g512.iter().any(|&c| c >= 12289) {
        return Some(format!("coefficient >= q on {} (len {})", show, s.len()));
    }
    if let Some(k) = (0..1024).find(|&k| g1024[k] as i64 != want1024[k]) {
        return Some(format!("hash_to_point({}.. len {}, 1024)[{}] = {} but Algorithm 3 gives {}", show, s.len(), k, g1024[k], want1024[k]));
    }
    if let Some(k) = (0..512).find(|&k| g512[k] as i64 != want512[k]) {
        return Some(format!("hash_to_point({}.. len {}, 512)[{}] = {} but Algorithm 3 gives {}", show, s.len(), k, g512[k], want512[k]));
    }
    if g512[..] != g1024[..512] {
        return Some(format!("Falcon-512 point is not the first half of the Falcon-1024 point on {} (len {})", show, s.len()));
    }
    None
}

fn merge(a: &mut HtpStats, b: &HtpStats) {
    a.chunks += b.chunks;
    a.rejected += b.rejected;
    a.at_61444 += b.at_61444;
    a.at_61445 += b.at_61445;
    a.at_65535 += b.at_65535;
    a.at_12289_multiple += b.at_12289_multiple;
    a.rejected_before_last += b.rejected_before_last;
}

fn sweep(strings: Vec<Vec<u8>>) -> (HtpStats, Vec<Found>, u64) {
    let res: Vec<(HtpStats, Option<Found>)> = strings
        .par_iter()
        .map(|s| {
            let mut st = HtpStats::default();
            let r = check_string(s, Some(&mut st));
            (st, r.map(|w| found(format!("htp:{}", hex(&s[..s.len().min(8)])), w, if s.len() <= 8192 { json!({"kind":"string","hex":hex(s)}) } else { json!({"kind":"ladder","len":s.len(),"constant":s.iter().all(|&b| b == 0x5a)}) })))
        })
        .collect();
    let mut st = HtpStats::default();
    let mut f = vec![];
    let n = res.len() as u64;
    for (s, r) in res {
        merge(&mut st, &s);
        if let Some(x) = r {
            if f.len() < 8 {
                f.push(x);
            }
        }
    }
    (st, f, n)
}

pub fn run(tier: Tier) {
    let mut ctx = Ctx::new("C14", tier);
    let mut total = HtpStats::default();

    // short strings
    let mut strings: Vec<Vec<u8>> = vec![vec![]];
    for a in 0..=255u8 {
        strings.push(vec![a]);
    }
    if tier.thorough() {
        for a in 0..=255u8 {
            for b in 0..=255u8 {
                strings.push(vec![a, b]);
            }
        }
    } else {
        // a fixed 4096-element slice of the two-byte strings (the VERIF_SEED selects which one)
        let off = (ctx.seed % 16) as u32 * 4096;
        for k in 0..4096u32 {
            let v = off + k;
            strings.push(vec![(v >> 8) as u8, (v & 0xff) as u8]);
        }
    }
    let mut part = Part::new(
        "short_strings",
        if tier.thorough() {
            "every byte string of length <= 2 (65 793 strings), n = 512 and 1024"
        } else {
            "every byte string of length <= 1 and a contiguous window of 4096 two-byte strings (offset chosen by VERIF_SEED), n = 512 and 1024"
        },
    );
    let (st, f, n) = sweep(strings);
    merge(&mut total, &st);
    part.states = n;
    part.transitions = 3 * n;
    part.validated = 2 * n;
    part.exhaustive = true;
    part.outcome(format!("chunks={} rejected={}", st.chunks, st.rejected));
    part.outcome("all equal to Algorithm 3".to_string());
    for x in f {
        ctx.violation(x.key, x.what, x.case);
    }
    ctx.add_part(part);

    if tier.thorough() {
        // every 3-byte string (2^24), in slices to bound memory
        let mut part = Part::new("three_byte_strings", "every byte string of length 3 (16 777 216 strings), n = 512 and 1024");
        for a in 0..=255u8 {
            let strings: Vec<Vec<u8>> = (0..65536u32).map(|k| vec![a, (k >> 8) as u8, k as u8]).collect();
            let (st, f, n) = sweep(strings);
            merge(&mut total, &st);
            part.states += n;
            part.transitions += 3 * n;
            part.validated += 2 * n;
            for x in f {
                ctx.violation(x.key, x.what, x.case);
            }
        }
        part.exhaustive = true;
        part.outcome("all equal to Algorithm 3".to_string());
        ctx.add_part(part);
    }

    // block-boundary lengths, every fill byte
    let lens = [3usize, 40, 41, 45, 135, 136, 137, 271, 272, 273, 1000];
    let mut strings = vec![];
    for &l in &lens {
        for a in 0..=255u8 {
            strings.push(vec![a; l]);
        }
    }
    // the repo's own KAT inputs and a salt-like structured family
    strings.push(b"data1".to_vec());
    strings.push([vec![0u8; 40], b"data1".to_vec()].concat());
    strings.push((0..=255u8).collect());
    let mut part = Part::new(
        "boundary_lengths",
        "lengths {3,40,41,45,135,136,137,271,272,273,1000} (136 = SHAKE-256 rate) x all 256 fill bytes, plus 3 structured strings",
    );
    let (st, f, n) = sweep(strings);
    merge(&mut total, &st);
    part.states = n;
    part.transitions = 3 * n;
    part.validated = 2 * n;
    part.exhaustive = true;
    part.outcome(format!("chunks={} rejected={}", st.chunks, st.rejected));
    for x in f {
        ctx.violation(x.key, x.what, x.case);
    }
    ctx.add_part(part);

    // length ladder: every length up to 1100 (4200 thorough) and around powers of two up to 2^20, two contents
    {
        let top: usize = if tier.thorough() { 4200 } else { 1100 };
        let mut lens: Vec<usize> = (0..=top).collect();
        for k in [13usize, 14, 15, 16, 17, 18, 20] {
            lens.extend([(1 << k) - 41, (1 << k) - 40, (1 << k) - 1, 1 << k, (1 << k) + 1]);
        }
        let mut strings = vec![];
        for &l in &lens {
            strings.push(vec![0x5au8; l]);
            // position-dependent content: a byte-swapped or truncated absorb shows
            strings.push((0..l).map(|i| (i as u32).wrapping_mul(2654435761).rotate_left(7) as u8 ^ (i >> 8) as u8).collect());
        }
        let mut part = Part::new("length_ladder", &format!("every length 0..={} and lengths around 2^13 .. 2^20 ({} lengths) x two contents (constant 5A, position-dependent), n = 512 and 1024", top, lens.len()));
        let (st, f, n) = sweep(strings);
        merge(&mut total, &st);
        part.states = n;
        part.transitions = 3 * n;
        part.validated = 2 * n;
        part.exhaustive = true;
        part.outcome(format!("chunks={} rejected={}", st.chunks, st.rejected));
        for x in f {
            ctx.violation(x.key, x.what, x.case);
        }
        ctx.add_part(part);
    }

    ctx.set(
        "threshold_hits",
        json!({"chunks": total.chunks, "rejected": total.rejected, "chunk==61444 (largest accepted)": total.at_61444,
               "chunk==61445 (smallest rejected)": total.at_61445, "chunk==65535": total.at_65535,
               "accepted multiples of q (reduce to 0)": total.at_12289_multiple,
               "rejected chunk immediately before the last coefficient": total.rejected_before_last}),
    );
    if total.at_61444 == 0 || total.at_61445 == 0 || total.at_65535 == 0 || total.rejected_before_last == 0 || total.at_12289_multiple == 0 {
        machinery_error("C14: the rejection threshold was not exercised from both sides by the enumeration (vacuity guard)");
    }
    let s = b"data1";
    ctx.sample(json!({"string": hex(s), "first 4 coefficients (impl)": fh::hash_to_point(s, 512)[..4].to_vec(), "first 4 (Algorithm 3)": hash_to_point(s, 512, None)[..4].to_vec()}));
    ctx.assume("reference = own Keccak-f[1600]/SHAKE-256 (validated against PQClean's fips202.c and python hashlib at setup) + Algorithm 3");
    ctx.assume("messages longer than 2^20 bytes are covered by the absorb loop's block structure only");
    ctx.finish();
}

pub fn replay(case: &Value) -> Result<Option<String>, String> {
    if case.get("kind").and_then(|k| k.as_str()) == Some("ladder") {
        let l = case.get("len").and_then(|x| x.as_u64()).ok_or("len")? as usize;
        let s: Vec<u8> = if case.get("constant").and_then(|x| x.as_bool()).unwrap_or(true) { vec![0x5au8; l] } else { (0..l).map(|i| (i as u32).wrapping_mul(2654435761).rotate_left(7) as u8 ^ (i >> 8) as u8).collect() };
        return Ok(check_string(&s, None));
    }
    let h = case.get("hex").and_then(|k| k.as_str()).ok_or("no hex")?;
    Ok(check_string(&unhex(h), None))
}

//! C14 - HashToPoint equals the SHAKE-256 rejection sampler of Algorithm 3 (E1 over short strings,
//! block-boundary lengths and forced threshold hits).

use super::{found, Found};
use crate::ctx::{catch, hex, machinery_error, unhex, Ctx, Part, Tier};
use crate::refmodel::keccak::{hash_to_point, hash_to_point_on_stream, HtpStats};
use falcon_rust::verif_hooks as fh;
use rayon::prelude::*;
use serde_json::{json, Value};

fn check_string(s: &[u8], stats: Option<&mut HtpStats>) -> Option<String> {
    let want1024 = hash_to_point(s, 1024, stats);
    let want512 = hash_to_point(s, 512, None);
    let got = catch(|| (fh::hash_to_point(s, 512), fh::hash_to_point(s, 1024), fh::hash_to_point(s, 1024)));
    let (g512, g1024, again) = match got {
        Ok(x) => x,
        Err(e) => return Some(format!("hash_to_point({}) panicked: {}", hex(&s[..s.len().min(16)]), e)),
    };
    let show = hex(&s[..s.len().min(16)]);
    if g1024 != again {
        return Some(format!("hash_to_point is not deterministic on {} (len {})", show, s.len()));
    }
    if g512.len() != 512 || g1024.len() != 1024 {
        return Some(format!("wrong output length on {} (len {})", show, s.len()));
    }
    if g1024.iter().any(|&c| c >= 12289) || g512.iter().any(|&c| c >= 12289) {
        return Some(format!("coefficient >= q on {} (len {})", show, s.len()));
    }
    if let Some(k) = (0..1024).find(|&k| g1024[k] as i64 != want1024[k]) {
        return Some(format!("hash_to_point({}.. len {}, 1024)[{}] = {} but Algorithm 3 gives {}", show, s.len(), k, g1024[k], want1024[k]));
    }
    if let Some(k) = (0..512).find(|&k| g512[k] as i64 != want512[k]) {
        return Some(format!("hash_to_point({}.. len {}, 512)[{}] = {} but Algorithm 3 gives {}", show, s.len(), k, g512[k], want512[k]));
    }
    if g512[..] != g1024[..512] {
        return Some(format!("Falcon-512 point is not the first half of the Falcon-1024 point on {} (len {})", show, s.len()));
    }
    None
}

/// chunk streams (16-bit big-endian values) that decide what the rejection sampler sees; every family is a
/// deviation from the default "every chunk accepted"
pub fn scripted_streams(n: usize, thorough: bool) -> Vec<(String, Vec<u16>)> {
    let acc = |i: usize| -> u16 { ((i as u32 * 7919 + 13) % 61445) as u16 };
    let mut out: Vec<(String, Vec<u16>)> = vec![];
    // constant accepted values, including the multiples of q and the largest accepted value
    for v in [0u16, 1, 12288, 12289, 12290, 24578, 36867, 49156, 61444] {
        out.push((format!("constant {}", v), vec![v; n]));
    }
    // a run of k rejected chunks before accepted chunk number p
    let ks: Vec<usize> = if thorough { (0..=80).chain([100, 128, 255, 256, 257, 511, 512, 513, 1024, 2048, 5000]).collect() } else { (0..=20).chain([31, 32, 33, 63, 64, 65, 100, 128, 256, 512, 1024, 2048]).collect() };
    for &k in &ks {
        for p in [0usize, 1, n / 2, n - 1] {
            for (rname, rv) in [("61445", [61445u16, 61445]), ("65535", [65535, 65535]), ("mixed", [61445, 65535])] {
                if rname != "61445" && k > 40 && !thorough {
                    continue;
                }
                let mut s: Vec<u16> = (0..p).map(acc).collect();
                s.extend((0..k).map(|j| rv[j % 2]));
                s.extend((p..n).map(acc));
                out.push((format!("run of {} rejected ({}) before coefficient {}", k, rname, p), s));
            }
        }
    }
    // r rejected chunks spread evenly over the first n + r chunks
    let rs: Vec<usize> = if thorough { (1..=100).chain([n / 8 - 1, n / 8, n / 8 + 1, n / 8 + 2, n / 4, n / 2, n - 1, n, n + 1, 2 * n]).collect() } else { vec![1, 2, 3, 8, 16, 32, 33, n / 16, n / 8 - 1, n / 8, n / 8 + 1, n / 8 + 2, n / 4, n / 2, n, 2 * n] };
    for &r in &rs {
        let total = n + r;
        let mut s = Vec::with_capacity(total);
        let (mut placed, mut accd) = (0usize, 0usize);
        for i in 0..total {
            // rejected where the running proportion asks for one
            if placed < r && (i + 1) * r / total > placed {
                s.push(if placed % 2 == 0 { 61445 } else { 65000 });
                placed += 1;
            } else {
                s.push(acc(accd));
                accd += 1;
            }
        }
        out.push((format!("{} rejected chunks spread over the first {}", r, total), s));
    }
    // every m-th chunk rejected (m = 1: the first 3n chunks are all rejected)
    for m in 1..=(if thorough { 16 } else { 8 }) {
        let s: Vec<u16> = if m == 1 {
            (0..4 * n).map(|i| if i < 3 * n { 65535 } else { acc(i) }).collect()
        } else {
            (0..(n * m).div_ceil(m - 1) + m).map(|i| if i % m == m - 1 { 61445 } else { acc(i) }).collect()
        };
        out.push((format!("every {}th chunk rejected", m), s));
    }
    out
}

fn chunks_to_bytes(c: &[u16]) -> Vec<u8> {
    c.iter().flat_map(|v| [(v >> 8) as u8, (v & 0xff) as u8]).collect()
}

/// one scripted stream through the real hash_to_point (both degrees) against Algorithm 3 on the same stream
fn check_stream(name: &str, chunks: &[u16], n: usize) -> Option<String> {
    let prefix = chunks_to_bytes(chunks);
    let msg = b"scripted";
    let want = hash_to_point_on_stream(&prefix, msg, n, None);
    fh::install_xof_prefix(prefix);
    let got = catch(|| fh::hash_to_point(msg, n));
    fh::uninstall_xof_prefix();
    match got {
        Err(e) => Some(format!("hash_to_point(n={}) panicked on the XOF stream [{}]: {}", n, name, e)),
        Ok(g) => {
            if g.len() != n {
                return Some(format!("hash_to_point(n={}) returned {} coefficients on the XOF stream [{}]", n, g.len(), name));
            }
            (0..n).find(|&k| g[k] as i64 != want[k]).map(|k| format!("hash_to_point(n={})[{}] = {} but Algorithm 3 gives {} on the XOF stream [{}]", n, k, g[k], want[k], name))
        }
    }
}

fn merge(a: &mut HtpStats, b: &HtpStats) {
    a.chunks += b.chunks;
    a.rejected += b.rejected;
    a.at_61444 += b.at_61444;
    a.at_61445 += b.at_61445;
    a.at_65535 += b.at_65535;
    a.at_12289_multiple += b.at_12289_multiple;
    a.rejected_before_last += b.rejected_before_last;
}

fn sweep(strings: Vec<Vec<u8>>) -> (HtpStats, Vec<Found>, u64) {
    let res: Vec<(HtpStats, Option<Found>)> = strings
        .par_iter()
        .map(|s| {
            let mut st = HtpStats::default();
            let r = check_string(s, Some(&mut st));
            (st, r.map(|w| found(format!("htp:{}", hex(&s[..s.len().min(8)])), w, if s.len() <= 8192 { json!({"kind":"string","hex":hex(s)}) } else { json!({"kind":"ladder","len":s.len(),"constant":s.iter().all(|&b| b == 0x5a)}) })))
        })
        .collect();
    let mut st = HtpStats::default();
    let mut f = vec![];
    let n = res.len() as u64;
    for (s, r) in res {
        merge(&mut st, &s);
        if let Some(x) = r {
            if f.len() < 8 {
                f.push(x);
            }
        }
    }
    (st, f, n)
}

pub fn run(tier: Tier) {
    let mut ctx = Ctx::new("C14", tier);
    let mut total = HtpStats::default();

    // short strings
    let mut strings: Vec<Vec<u8>> = vec![vec![]];
    for a in 0..=255u8 {
        strings.push(vec![a]);
    }
    if tier.thorough() {
        for a in 0..=255u8 {
            for b in 0..=255u8 {
                strings.push(vec![a, b]);
            }
        }
    } else {
        // a fixed 4096-element slice of the two-byte strings (the VERIF_SEED selects which one)
        let off = (ctx.seed % 16) as u32 * 4096;
        for k in 0..4096u32 {
            let v = off + k;
            strings.push(vec![(v >> 8) as u8, (v & 0xff) as u8]);
        }
    }
    let mut part = Part::new(
        "short_strings",
        if tier.thorough() {
            "every byte string of length <= 2 (65 793 strings), n = 512 and 1024"
        } else {
            "every byte string of length <= 1 and a contiguous window of 4096 two-byte strings (offset chosen by VERIF_SEED), n = 512 and 1024"
        },
    );
    let (st, f, n) = sweep(strings);
    merge(&mut total, &st);
    part.states = n;
    part.transitions = 3 * n;
    part.validated = 2 * n;
    part.exhaustive = true;
    part.outcome(format!("chunks={} rejected={}", st.chunks, st.rejected));
    part.outcome("all equal to Algorithm 3".to_string());
    for x in f {
        ctx.violation(x.key, x.what, x.case);
    }
    ctx.add_part(part);

    if tier.thorough() {
        // every 3-byte string (2^24), in slices to bound memory
        let mut part = Part::new("three_byte_strings", "every byte string of length 3 (16 777 216 strings), n = 512 and 1024");
        for a in 0..=255u8 {
            let strings: Vec<Vec<u8>> = (0..65536u32).map(|k| vec![a, (k >> 8) as u8, k as u8]).collect();
            let (st, f, n) = sweep(strings);
            merge(&mut total, &st);
            part.states += n;
            part.transitions += 3 * n;
            part.validated += 2 * n;
            for x in f {
                ctx.violation(x.key, x.what, x.case);
            }
        }
        part.exhaustive = true;
        part.outcome("all equal to Algorithm 3".to_string());
        ctx.add_part(part);
    }

    // block-boundary lengths, every fill byte
    let lens = [3usize, 40, 41, 45, 135, 136, 137, 271, 272, 273, 1000];
    let mut strings = vec![];
    for &l in &lens {
        for a in 0..=255u8 {
            strings.push(vec![a; l]);
        }
    }
    // the repo's own KAT inputs and a salt-like structured family
    strings.push(b"data1".to_vec());
    strings.push([vec![0u8; 40], b"data1".to_vec()].concat());
    strings.push((0..=255u8).collect());
    let mut part = Part::new(
        "boundary_lengths",
        "lengths {3,40,41,45,135,136,137,271,272,273,1000} (136 = SHAKE-256 rate) x all 256 fill bytes, plus 3 structured strings",
    );
    let (st, f, n) = sweep(strings);
    merge(&mut total, &st);
    part.states = n;
    part.transitions = 3 * n;
    part.validated = 2 * n;
    part.exhaustive = true;
    part.outcome(format!("chunks={} rejected={}", st.chunks, st.rejected));
    for x in f {
        ctx.violation(x.key, x.what, x.case);
    }
    ctx.add_part(part);

    // length ladder: every length up to 1100 (4200 thorough) and around powers of two up to 2^20, two contents
    {
        let top: usize = if tier.thorough() { 4200 } else { 1100 };
        let mut lens: Vec<usize> = (0..=top).collect();
        for k in [13usize, 14, 15, 16, 17, 18, 20] {
            lens.extend([(1 << k) - 41, (1 << k) - 40, (1 << k) - 1, 1 << k, (1 << k) + 1]);
        }
        let mut strings = vec![];
        for &l in &lens {
            strings.push(vec![0x5au8; l]);
            // position-dependent content: a byte-swapped or truncated absorb shows
            strings.push((0..l).map(|i| (i as u32).wrapping_mul(2654435761).rotate_left(7) as u8 ^ (i >> 8) as u8).collect());
        }
        let mut part = Part::new("length_ladder", &format!("every length 0..={} and lengths around 2^13 .. 2^20 ({} lengths) x two contents (constant 5A, position-dependent), n = 512 and 1024", top, lens.len()));
        let (st, f, n) = sweep(strings);
        merge(&mut total, &st);
        part.states = n;
        part.transitions = 3 * n;
        part.validated = 2 * n;
        part.exhaustive = true;
        part.outcome(format!("chunks={} rejected={}", st.chunks, st.rejected));
        for x in f {
            ctx.violation(x.key, x.what, x.case);
        }
        ctx.add_part(part);
    }

    // the rejection sampler's environment: scripted XOF output (hook install_xof_prefix)
    {
        let mut part = Part::new("scripted_xof_streams", "the XOF reader of hash_to_point is made to deliver a chosen chunk stream first (then the real SHAKE-256 output): constant accepted values incl. every multiple of q; a run of k rejected chunks (61445 / 65535 / alternating) before coefficient 0, 1, n/2, n-1 for k up to 2048 (thorough 5000); r rejected chunks spread over the first n + r for r around n/16, n/8, n/4, n/2, n, 2n; every m-th chunk rejected; n = 512 and 1024; the result must be Algorithm 3 applied to the same stream");
        // the tap must be live: a stream of zeros gives the zero point
        fh::install_xof_prefix(vec![0u8; 4096]);
        let z = fh::hash_to_point(b"tap", 512);
        fh::uninstall_xof_prefix();
        if z.iter().any(|&c| c != 0) || fh::hash_to_point(b"tap", 512).iter().all(|&c| c == 0) {
            ctx.cap("C14: the XOF tap is not in effect (hash_to_point does not read through the hooked reader); scripted streams are skipped");
        } else {
            for n in [512usize, 1024] {
                let fam = scripted_streams(n, tier.thorough());
                let res: Vec<Option<(String, String)>> = fam.par_iter().map(|(name, ch)| check_stream(name, ch, n).map(|w| (name.clone(), w))).collect();
                part.states += fam.len() as u64;
                part.transitions += fam.len() as u64;
                part.validated += fam.len() as u64;
                let mut shown = 0;
                for (name, w) in res.into_iter().flatten() {
                    if shown < 6 {
                        let class = name.split(|c: char| c.is_ascii_digit()).next().unwrap_or("").trim().to_string();
                        ctx.violation(format!("htp-stream:n={}:{}", n, class), w, json!({"kind":"stream","n":n,"name":name}));
                        shown += 1;
                    }
                }
            }
            part.exhaustive = true;
            part.outcome("all equal to Algorithm 3 on the scripted stream".to_string());
            ctx.add_part(part);
        }
    }

    // call histories on one thread: what hash_to_point returns must not depend on what it hashed before
    {
        let inputs: Vec<Vec<u8>> = vec![b"short input A, 45 bytes long ................".to_vec(), b"B".to_vec(), vec![], vec![0x31u8; 1024], vec![0x32u8; 1025], vec![0x33u8; 5000], b"short input A, 45 bytes long ...............!".to_vec()];
        let syms: Vec<(usize, usize)> = (0..inputs.len()).flat_map(|i| [(i, 512usize), (i, 1024)]).collect();
        let want: Vec<Vec<i64>> = syms.iter().map(|&(i, n)| hash_to_point(&inputs[i], n, None)).collect();
        let mut hists: Vec<Vec<usize>> = vec![];
        for a in 0..syms.len() {
            for b in 0..syms.len() {
                hists.push(vec![a, b, a]);
                hists.push(vec![a, b, b]);
            }
        }
        let mut part = Part::new("call_histories", &format!("every history (x, y, x) and (x, y, y) of hash_to_point calls on one fresh thread over {} (input, degree) symbols - inputs of 0, 1, 45 (two that differ in the last byte), 1024, 1025 and 5000 bytes at both degrees: every call equals Algorithm 3 on its own input", syms.len()));
        let inp = std::sync::Arc::new(inputs);
        let res: Vec<(Vec<usize>, Result<Vec<Vec<u32>>, String>)> = hists
            .par_iter()
            .map(|h| {
                let (h2, inp2, syms2) = (h.clone(), inp.clone(), syms.clone());
                (h.clone(), crate::sched::on_fresh_thread(move || h2.iter().map(|&k| fh::hash_to_point(&inp2[syms2[k].0], syms2[k].1)).collect::<Vec<_>>()))
            })
            .collect();
        for (h, r) in res {
            part.states += 1;
            part.transitions += h.len() as u64;
            part.validated += h.len() as u64;
            let describe = || h.iter().map(|&k| format!("({} bytes, n={})", inp[syms[k].0].len(), syms[k].1)).collect::<Vec<_>>().join(" ; ");
            match r {
                Err(e) => ctx.violation("htp-history:panic".to_string(), format!("hash_to_point panicked in the call history [{}]: {}", describe(), e), json!({"kind":"htp-history","history":h})),
                Ok(outs) => {
                    for (step, o) in outs.iter().enumerate() {
                        let w = &want[h[step]];
                        if o.len() != w.len() || o.iter().zip(w.iter()).any(|(a, b)| *a as i64 != *b) {
                            ctx.violation(format!("htp-history:call{}", step + 1), format!("in the call history [{}] on one thread, call {} does not return Algorithm 3's point for its input", describe(), step + 1), json!({"kind":"htp-history","history":h}));
                            break;
                        }
                    }
                }
            }
        }
        part.exhaustive = true;
        part.outcome("every call equals Algorithm 3".to_string());
        ctx.add_part(part);
    }

    ctx.set(
        "threshold_hits",
        json!({"chunks": total.chunks, "rejected": total.rejected, "chunk==61444 (largest accepted)": total.at_61444,
               "chunk==61445 (smallest rejected)": total.at_61445, "chunk==65535": total.at_65535,
               "accepted multiples of q (reduce to 0)": total.at_12289_multiple,
               "rejected chunk immediately before the last coefficient": total.rejected_before_last}),
    );
    if total.at_61444 == 0 || total.at_61445 == 0 || total.at_65535 == 0 || total.rejected_before_last == 0 || total.at_12289_multiple == 0 {
        machinery_error("C14: the rejection threshold was not exercised from both sides by the enumeration (vacuity guard)");
    }
    let s = b"data1";
    ctx.sample(json!({"string": hex(s), "first 4 coefficients (impl)": fh::hash_to_point(s, 512)[..4].to_vec(), "first 4 (Algorithm 3)": hash_to_point(s, 512, None)[..4].to_vec()}));
    ctx.assume("reference = own Keccak-f[1600]/SHAKE-256 (validated against PQClean's fips202.c and python hashlib at setup) + Algorithm 3");
    ctx.assume("messages longer than 2^20 bytes are covered by the absorb loop's block structure only");
    ctx.finish();
}

pub fn replay(case: &Value) -> Result<Option<String>, String> {
    if case.get("kind").and_then(|k| k.as_str()) == Some("htp-history") {
        return Err("re-run ./vf check C14 (the call histories are enumerated deterministically)".into());
    }
    if case.get("kind").and_then(|k| k.as_str()) == Some("stream") {
        let n = case.get("n").and_then(|x| x.as_u64()).ok_or("n")? as usize;
        let name = case.get("name").and_then(|x| x.as_str()).ok_or("name")?;
        let fam = scripted_streams(n, true);
        let (nm, ch) = fam.iter().find(|(k, _)| k == name).ok_or("stream family member not found")?;
        return Ok(check_stream(nm, ch, n));
    }
    if case.get("kind").and_then(|k| k.as_str()) == Some("ladder") {
        let l = case.get("len").and_then(|x| x.as_u64()).ok_or("len")? as usize;
        let s: Vec<u8> = if case.get("constant").and_then(|x| x.as_bool()).unwrap_or(true) { vec![0x5au8; l] } else { (0..l).map(|i| (i as u32).wrapping_mul(2654435761).rotate_left(7) as u8 ^ (i >> 8) as u8).collect() };
        return Ok(check_string(&s, None));
    }
    let h = case.get("hex").and_then(|k| k.as_str()).ok_or("no hex")?;
    Ok(check_string(&unhex(h), None))
}

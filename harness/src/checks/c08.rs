//! C08 - every signature carries a fresh random 40-byte salt. E4: all histories of sign calls up to
//! a depth over keys x messages x threads (two long-lived threads and freshly spawned ones), plus
//! child processes; production RNG (hooks idle).

use crate::api::{Variant, V1024, V512};
use crate::ctx::{hex, machinery_error, Ctx, Part, Tier};
use crate::sched::{child, on_fresh_thread, sequences, Worker};
use serde_json::{json, Value};
use std::collections::{BTreeMap, BTreeSet};
use std::sync::Arc;

struct Keys {
    k1: <V512 as Variant>::Sk,
    k2: <V512 as Variant>::Sk,
    k3: <V1024 as Variant>::Sk,
}

const MA: &[u8] = b"message A";
const MB: &[u8] = b"a different, longer message B ..................................";

/// the operations of the alphabet; returns the signature bytes
fn op(keys: &Keys, o: usize) -> Vec<u8> {
    match o {
        0 => V512::sig_to_bytes(&V512::sign(MA, &keys.k1)),
        1 => V512::sig_to_bytes(&V512::sign(MB, &keys.k1)),
        2 => V512::sig_to_bytes(&V512::sign(MA, &keys.k2)),
        _ => V1024::sig_to_bytes(&V1024::sign(MA, &keys.k3)),
    }
}

const OPS: usize = 4;
const OP_NAMES: [&str; 4] = ["sign512(k1,mA)", "sign512(k1,mB)", "sign512(k2,mA)", "sign1024(k3,mA)"];
const THREADS: usize = 3; // T0, T1 long-lived, 2 = freshly spawned
const THREAD_NAMES: [&str; 3] = ["T0", "T1", "fresh"];

fn describe(h: &[usize]) -> String {
    h.iter().map(|&s| format!("{}@{}", OP_NAMES[s % OPS], THREAD_NAMES[s / OPS])).collect::<Vec<_>>().join(" ; ")
}

pub fn run(tier: Tier) {
    let mut ctx = Ctx::new("C08", tier);
    let keys = Arc::new(Keys { k1: crate::api::key::<V512>(0).0, k2: crate::api::key::<V512>(1).0, k3: crate::api::key::<V1024>(0).0 });
    let depth = if tier.thorough() { 4 } else { 3 };
    let workers = [Worker::new("T0"), Worker::new("T1")];
    let mut seen: BTreeMap<Vec<u8>, String> = BTreeMap::new();
    let mut byte_values: Vec<BTreeSet<u8>> = vec![BTreeSet::new(); 40];
    let mut part = Part::new(
        "sign_histories",
        &format!("all {}^{} histories of depth {} over the alphabet {{sign512(k1,mA), sign512(k1,mB), sign512(k2,mA), sign1024(k3,mA)}} x thread in {{T0, T1 (long-lived), freshly spawned}}, one call at a time, production thread_rng; after every call: salt (bytes 1..41) differs from every salt seen so far in the whole run, and a repeated (key,message) gives different signature bytes", OPS * THREADS, depth, depth),
    );
    let mut nsig = 0u64;
    let hist = sequences(OPS * THREADS, depth);
    for h in &hist {
        part.states += 1;
        let mut last_by_op: BTreeMap<usize, Vec<u8>> = BTreeMap::new();
        for (step, &sym) in h.iter().enumerate() {
            let (o, th) = (sym % OPS, sym / OPS);
            let k = keys.clone();
            let r = if th < 2 { workers[th].call(move || op(&k, o)) } else { on_fresh_thread(move || op(&k, o)) };
            part.transitions += 1;
            nsig += 1;
            let sig = match r {
                Ok(s) => s,
                Err(e) => {
                    ctx.violation(format!("sign-panic:{}", OP_NAMES[o]), format!("{} panicked in history [{}] at step {}: {}", OP_NAMES[o], describe(h), step, e), json!({"kind":"history","history":h}));
                    continue;
                }
            };
            let salt = sig[1..41].to_vec();
            for (i, b) in salt.iter().enumerate() {
                byte_values[i].insert(*b);
            }
            let here = format!("[{}] step {}", describe(h), step);
            if let Some(prev) = seen.get(&salt) {
                ctx.violation(
                    format!("salt-repeated:{}", if th == 2 { "fresh-thread" } else { "long-lived-thread" }),
                    format!("salt {} of {} at {} was already used at {}", hex(&salt[..8]), OP_NAMES[o], here, prev),
                    json!({"kind":"history","history":h}),
                );
            } else {
                seen.insert(salt, here);
            }
            if let Some(prev) = last_by_op.get(&o) {
                if *prev == sig {
                    ctx.violation("same-signature-twice".to_string(), format!("{} produced byte-identical signatures twice in history [{}]", OP_NAMES[o], describe(h)), json!({"kind":"history","history":h}));
                }
            }
            last_by_op.insert(o, sig);
            part.validated += 1;
        }
    }
    part.exhaustive = true;
    part.outcome(format!("distinct salts {}", seen.len()));
    part.outcome(format!("signatures {}", nsig));
    ctx.add_part(part);

    // child processes: the first signatures of fresh processes
    let nchild = if tier.thorough() { 6 } else { 3 };
    let mut part = Part::new("child_processes", &format!("{} child processes each running every depth-2 history of the alphabet on its main thread and a fresh thread; all salts compared with each other and with the parent's", nchild));
    for c in 0..nchild {
        match child(&["salts"]) {
            Ok(out) => {
                for (ln, line) in out.lines().enumerate() {
                    let salt = crate::ctx::unhex(line.trim());
                    if salt.len() != 40 {
                        continue;
                    }
                    part.states += 1;
                    part.transitions += 1;
                    part.validated += 1;
                    for (i, b) in salt.iter().enumerate() {
                        byte_values[i].insert(*b);
                    }
                    let here = format!("child process {} signature #{}", c, ln);
                    if let Some(prev) = seen.get(&salt) {
                        ctx.violation("salt-repeated:across-processes".to_string(), format!("salt {} at {} was already used at {}", hex(&salt[..8]), here, prev), json!({"kind":"child"}));
                    } else {
                        seen.insert(salt, here);
                    }
                }
            }
            Err(e) => machinery_error(&format!("C08: child process failed: {}", e)),
        }
    }
    part.exhaustive = true;
    part.outcome(format!("distinct salts overall {}", seen.len()));
    ctx.add_part(part);

    // message lengths: the salt must not depend on how long the message is (buffers sized for typical messages,
    // hash block boundaries of r || m)
    {
        let top: usize = if tier.thorough() { 4200 } else { 1100 };
        let mut lens: Vec<usize> = (0..=top).collect();
        for k in [13usize, 14, 15, 16, 17, 18, 20] {
            lens.extend([(1 << k) - 41, (1 << k) - 40, (1 << k) - 1, 1 << k, (1 << k) + 1]);
        }
        let mut part = Part::new("message_length_ladder", &format!("messages 0x5a^L for every L in 0..={} and L around 2^13 ... 2^20 ({} lengths): sign512(k1) twice on T0 and sign1024(k3) once on T1 (every 8th length); each salt is new in the whole run and not all zero, and the two signatures of the same message differ", top, lens.len()));
        let mut zero_salts = 0u64;
        for (li, &l) in lens.iter().enumerate() {
            let msg = Arc::new(vec![0x5au8; l]);
            let mut sigs: Vec<(Vec<u8>, &str)> = vec![];
            for _ in 0..2 {
                let (k, m) = (keys.clone(), msg.clone());
                match workers[0].call(move || V512::sig_to_bytes(&V512::sign(&m, &k.k1))) {
                    Ok(s) => sigs.push((s, "sign512(k1)")),
                    Err(e) => ctx.violation("sign-panic:long-message".to_string(), format!("sign512 panicked on a message of {} bytes: {}", l, e), json!({"kind":"length","len":l})),
                }
            }
            if li % 8 == 0 || l > top {
                let (k, m) = (keys.clone(), msg.clone());
                match workers[1].call(move || V1024::sig_to_bytes(&V1024::sign(&m, &k.k3))) {
                    Ok(s) => sigs.push((s, "sign1024(k3)")),
                    Err(e) => ctx.violation("sign-panic:long-message".to_string(), format!("sign1024 panicked on a message of {} bytes: {}", l, e), json!({"kind":"length","len":l})),
                }
            }
            part.states += 1;
            if sigs.len() >= 2 && sigs[0].0 == sigs[1].0 {
                ctx.violation("same-signature-twice:by-length".to_string(), format!("signing the same {}-byte message twice gave byte-identical signatures", l), json!({"kind":"length","len":l}));
            }
            for (sig, who) in sigs {
                part.transitions += 1;
                part.validated += 1;
                let salt = sig[1..41].to_vec();
                for (i, b) in salt.iter().enumerate() {
                    byte_values[i].insert(*b);
                }
                if salt.iter().all(|&b| b == 0) {
                    zero_salts += 1;
                }
                let here = format!("{} on a message of {} bytes", who, l);
                let bucket = if l <= 64 { "short" } else if l <= 1100 { "medium" } else { "long" };
                if let Some(prev) = seen.get(&salt) {
                    ctx.violation(format!("salt-repeated:message-length:{}", bucket), format!("salt {} of {} was already used at {}", hex(&salt[..8]), here, prev), json!({"kind":"length","len":l}));
                } else {
                    seen.insert(salt, here);
                }
            }
        }
        part.exhaustive = true;
        part.outcome(format!("distinct salts overall {}", seen.len()));
        part.outcome(format!("all-zero salts {}", zero_salts));
        ctx.add_part(part);
    }

    // copies of one key: clones taken before and after the first signature, and objects decoded twice from the same
    // bytes, must each draw their own salts (state that travels with a key object must not be duplicated with it)
    {
        let mut part = Part::new("key_copies", "a Falcon-512 and a Falcon-1024 key: the original, a clone taken before its first signature, a clone taken after it, a clone of that clone, and two objects decoded from the same bytes (one of them after the original has signed) sign the same message in every order of a depth-3 history on one thread and on two threads alternately: every salt is new in the whole run");
        fn copies<V: Variant>(seed: u64) -> Vec<(String, V::Sk)> {
            let k = crate::api::key::<V>(seed).0;
            let early = k.clone();
            let bytes = V::sk_to_bytes(&k);
            let d1 = V::sk_from_bytes(&bytes).unwrap();
            let _ = V::sign(b"warm up", &k);
            let late = k.clone();
            let _ = V::sign(b"warm up", &late);
            let late2 = late.clone();
            let d2 = V::sk_from_bytes(&bytes).unwrap();
            vec![("original".into(), k), ("clone before first use".into(), early), ("clone after first use".into(), late), ("clone of the used clone".into(), late2), ("decoded (before)".into(), d1), ("decoded (after)".into(), d2)]
        }
        fn run_copies<V: Variant>(ctx: &mut Ctx, part: &mut Part, seen: &mut BTreeMap<Vec<u8>, String>, byte_values: &mut [BTreeSet<u8>], seed: u64, workers: &[Worker; 2]) {
            let objs = Arc::new(copies::<V>(seed));
            for h in sequences(objs.len(), 3) {
                part.states += 1;
                for (step, &o) in h.iter().enumerate() {
                    let ob = objs.clone();
                    let r = workers[step % 2].call(move || V::sig_to_bytes(&V::sign(MA, &ob[o].1)));
                    part.transitions += 1;
                    part.validated += 1;
                    let Ok(sig) = r else { continue };
                    let salt = sig[1..41].to_vec();
                    for (i, b) in salt.iter().enumerate() {
                        byte_values[i].insert(*b);
                    }
                    let here = format!("{} '{}' (history {:?}, step {})", V::name(), objs[o].0, h, step);
                    if let Some(prev) = seen.get(&salt) {
                        ctx.violation(format!("salt-repeated:key-copy:{}", objs[o].0), format!("salt {} of {} was already used at {}", hex(&salt[..8]), here, prev), json!({"kind":"copies","variant":V::N}));
                    } else {
                        seen.insert(salt, here);
                    }
                }
            }
        }
        run_copies::<V512>(&mut ctx, &mut part, &mut seen, &mut byte_values, 5, &workers);
        run_copies::<V1024>(&mut ctx, &mut part, &mut seen, &mut byte_values, 5, &workers);
        part.exhaustive = true;
        part.outcome(format!("distinct salts overall {}", seen.len()));
        ctx.add_part(part);
    }

    // how much of the generator's output the salt depends on: flip each of the first 2048 generator bits in turn
    {
        const NBITS: usize = 2048;
        use rayon::prelude::*;
        let mut part = Part::new("salt_entropy_by_bit_influence", "sign512(k1, mA) and sign1024(k3, mA) with the signer's generator replaced by a fixed word stream; for each of the first 2048 generator bits the same call is repeated with that bit flipped: the set of bits whose flip changes the salt must have at least 320 elements (a salt that is a function of fewer generator bits repeats after far fewer than 2^160 signatures), and two different streams give different salts");
        for variant in [512usize, 1024] {
            let run = |stream: u64, flip: Option<usize>| -> Result<Vec<u8>, String> {
                let k = keys.clone();
                crate::ctx::catch(move || {
                    falcon_rust::verif_hooks::install_rng(Box::new(crate::envrng::WordStream::new(stream, 1 << 20, flip)));
                    let r = std::panic::catch_unwind(std::panic::AssertUnwindSafe(|| if variant == 512 { V512::sig_to_bytes(&V512::sign(MA, &k.k1)) } else { V1024::sig_to_bytes(&V1024::sign(MA, &k.k3)) }));
                    falcon_rust::verif_hooks::uninstall_rng();
                    match r {
                        Ok(s) => s[1..41].to_vec(),
                        Err(e) => std::panic::resume_unwind(e),
                    }
                })
            };
            let (base, again, other) = (run(70, None), run(70, None), run(71, None));
            let (Ok(base), Ok(again), Ok(other)) = (base, again, other) else {
                ctx.violation(format!("sign-panic:word-stream:n={}", variant), format!("sign{} panicked under a fixed word stream", variant), json!({"kind":"entropy","variant":variant}));
                continue;
            };
            part.states += 3;
            part.transitions += 3;
            part.validated += 3;
            if base != again {
                // the salt does not come from the hooked generator at all: nothing can be said here
                ctx.cap(&format!("C08: the salt of sign{} is not a function of the hooked generator (two runs on the same word stream differ); the influence count is skipped", variant));
                continue;
            }
            if base == other {
                ctx.violation(format!("salt-ignores-generator:n={}", variant), format!("sign{}: two different generator streams give the same salt {}", variant, hex(&base[..8])), json!({"kind":"entropy","variant":variant}));
            }
            let influencing: Vec<usize> = (0..NBITS).into_par_iter().filter(|&b| matches!(run(70, Some(b)), Ok(s) if s != base)).collect();
            part.states += NBITS as u64;
            part.transitions += NBITS as u64;
            part.validated += NBITS as u64;
            part.outcome(format!("n={}: {} of the first {} generator bits influence the salt", variant, influencing.len(), NBITS));
            part.set(&format!("influencing_bits_{}", variant), json!(influencing.len()));
            if influencing.len() < 320 {
                ctx.violation(
                    format!("salt-entropy:n={}", variant),
                    format!("sign{}: the 320-bit salt depends on only {} of the first {} generator bits (e.g. {:?}...): it carries at most {} bits of entropy, and a repeat is expected after about 2^{} signatures", variant, influencing.len(), NBITS, &influencing[..influencing.len().min(6)], influencing.len(), influencing.len() / 2),
                    json!({"kind":"entropy","variant":variant,"influencing_bits":influencing.len()}),
                );
            }
        }
        part.exhaustive = true;
        ctx.add_part(part);
    }

    crate::e5::run_part(&mut ctx, "sign");
    // no constant byte position
    let constant: Vec<usize> = (0..40).filter(|&i| byte_values[i].len() < 2).collect();
    if !constant.is_empty() {
        ctx.violation("salt-constant-byte".to_string(), format!("salt byte positions {:?} took a single value over {} signatures", constant, seen.len()), json!({"kind":"bytes"}));
    }
    let minvals = byte_values.iter().map(|s| s.len()).min().unwrap_or(0);
    ctx.set("min_distinct_values_per_salt_byte", json!(minvals));
    ctx.set("signatures_observed", json!(seen.len()));
    let example = seen.keys().next().map(|s| hex(s)).unwrap_or_default();
    ctx.sample(json!({"history": describe(&hist[hist.len() / 2]), "a salt seen": example}));
    ctx.assume("salt values come from the operating system and are not owned by the harness (owning them would remove what the property is about); the verdict is deterministic up to a 320-bit collision or a byte constant over >1000 draws (probability < 2^-100)");
    ctx.assume("intra-call preemption is not explored here; call-level interleavings are (all sequences of (operation, thread))");
    ctx.finish();
}

pub fn child_salts() {
    // every depth-2 history on the main thread, then on a fresh thread
    let keys = Arc::new(Keys { k1: crate::api::key::<V512>(0).0, k2: crate::api::key::<V512>(1).0, k3: crate::api::key::<V1024>(0).0 });
    for h in sequences(OPS, 2) {
        for &o in &h {
            let s = op(&keys, o);
            println!("{}", hex(&s[1..41]));
        }
    }
    for h in sequences(OPS, 2) {
        let k = keys.clone();
        if let Ok(v) = on_fresh_thread(move || h.iter().map(|&o| op(&k, o)).collect::<Vec<_>>()) {
            for s in v {
                println!("{}", hex(&s[1..41]));
            }
        }
    }
}

pub fn replay(_case: &Value) -> Result<Option<String>, String> {
    if _case.get("kind").and_then(|k| k.as_str()) .map(|k| k == "e5" || k == "e5-setup").unwrap_or(false) {
        return crate::e5::replay(_case);
    }
    Err("C08 histories depend on the production RNG; re-run ./vf check C08 (a real defect fails on every run)".into())
}

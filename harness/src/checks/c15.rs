//! C15 - key generation is a deterministic function of the whole seed. E4: the same keygen call
//! embedded in histories (same thread, other thread, fresh thread, fresh process after every prefix of
//! other operations up to a depth, call-level interleavings of two threads); all 256 single-bit
//! flips of the seed.

use crate::api::{Variant, V1024, V512};
use crate::ctx::{hex, machinery_error, Ctx, Part, Tier};
use crate::sched::{child, interleavings, on_fresh_thread, sequences, Worker};
use crate::util::seed_bytes;
use rayon::prelude::*;
use serde_json::{json, Value};
use std::collections::BTreeSet;

const SA: u64 = 1001; // seeds used by prefix operations
const SB: u64 = 1002;

/// sk || pk bytes of keygen(seed) as one string
fn kg<V: Variant>(seed: [u8; 32]) -> String {
    let (sk, pk) = V::keygen(seed);
    format!("{}:{}", hex(&V::sk_to_bytes(&sk)), hex(&V::pk_to_bytes(&pk)))
}

/// execute one operation of the history alphabet; targets return Some(key bytes)
fn exec(op: &str) -> Option<String> {
    if let Some(rest) = op.strip_prefix("T512:") {
        return Some(kg::<V512>(parse_seed(rest)));
    }
    if let Some(rest) = op.strip_prefix("T1024:") {
        return Some(kg::<V1024>(parse_seed(rest)));
    }
    match op {
        "A" => {
            let _ = V512::keygen(seed_bytes(SA));
        }
        "B" => {
            let _ = V1024::keygen(seed_bytes(SB));
        }
        "C" => {
            let (sk, pk) = V512::keygen(seed_bytes(SA));
            let s = V512::sign(b"history", &sk);
            let _ = V512::verify(b"history", &s, &pk);
        }
        "D" => {
            let (sk, pk) = V1024::keygen(seed_bytes(SB));
            let s = V1024::sign(b"history", &sk);
            let _ = V1024::verify(b"history", &s, &pk);
        }
        "E" => {
            let sk = V512::generate();
            let _ = V512::sign(b"x", &sk);
        }
        _ => machinery_error(&format!("C15: unknown history operation {}", op)),
    }
    None
}

fn parse_seed(s: &str) -> [u8; 32] {
    let v = crate::ctx::unhex(s);
    let mut out = [0u8; 32];
    out.copy_from_slice(&v);
    out
}

pub fn child_keygen(args: &[String]) {
    // args[0] = comma separated operations; optional args[1] = "fresh" to run them on a spawned thread
    let ops: Vec<String> = args[0].split(',').map(|s| s.to_string()).collect();
    let run = move || {
        for o in &ops {
            if let Some(k) = exec(o) {
                println!("{}", k);
            }
        }
    };
    if args.get(1).map(|s| s.as_str()) == Some("fresh") {
        let _ = on_fresh_thread(run);
    } else {
        run();
    }
}

fn child_target(prefix: &[&str], target: &str, fresh: bool) -> Result<String, String> {
    let mut ops: Vec<&str> = prefix.to_vec();
    ops.push(target);
    let spec = ops.join(",");
    let r = if fresh { child(&["keygen", &spec, "fresh"]) } else { child(&["keygen", &spec]) };
    r.map(|out| out.lines().last().unwrap_or("").trim().to_string())
}

fn max_fg<V: Variant>(seed: u64) -> i16 {
    let b0 = V::gen_basis(seed_bytes(seed));
    b0[0].iter().chain(b0[1].iter()).map(|x| x.abs()).max().unwrap_or(0)
}

fn target_name<V: Variant>(seed: [u8; 32]) -> String {
    format!("T{}:{}", V::N, hex(&seed))
}

fn histories_for<V: Variant>(ctx: &mut Ctx, tier: Tier, seed: [u8; 32], label: &str) {
    let target = target_name::<V>(seed);
    // the baseline runs nothing but the target: if that process fails, nothing can be compared (machinery)
    let base = child_target(&[], &target, false).unwrap_or_else(|e| machinery_error(&format!("C15: baseline child process failed: {}", e)));
    if base.len() < 100 {
        machinery_error("C15: baseline child produced no key");
    }
    let alphabet = ["A", "B", "C", "D", "E"];
    let depth = if tier.thorough() { 2 } else { 1 };
    let mut prefixes: Vec<Vec<&str>> = vec![vec![]];
    for d in 1..=depth {
        for s in sequences(alphabet.len(), d) {
            prefixes.push(s.iter().map(|&i| alphabet[i]).collect());
        }
    }
    // the target repeated, and the target after itself on a fresh thread
    let mut jobs: Vec<(Vec<&str>, bool)> = prefixes.iter().map(|p| (p.clone(), false)).collect();
    for p in prefixes.iter().take(1 + alphabet.len()) {
        jobs.push((p.clone(), true));
    }
    let results: Vec<(String, Result<String, String>)> = jobs
        .par_iter()
        .map(|(p, fresh)| (format!("[{}]{}", p.join(","), if *fresh { " on a spawned thread" } else { "" }), child_target(p, &target, *fresh)))
        .collect();
    let mut part = Part::new(
        &format!("process_histories_{}_{}", V::N, label),
        &format!("{}::keygen(seed {}) in a fresh process after every prefix of depth <= {} over {{A: keygen512(s'), B: keygen1024(s''), C: keygen512+sign+verify, D: keygen1024+sign+verify, E: SecretKey::generate()+sign}} (main thread; prefixes of depth <= 1 also on a spawned thread): key bytes must equal those of a fresh process that only runs the target", V::name(), label, depth),
    );
    for (name, got) in results {
        part.states += 1;
        part.transitions += 1;
        part.validated += 1;
        // the baseline process succeeded, so a history process that dies (a panic of the library after the prefix) or
        // prints no key is a dependence of keygen on what ran before, not a failure of the machinery
        let got = match got {
            Ok(g) if g.len() >= 100 => g,
            other => {
                let why = match other { Ok(g) => format!("printed no key ({:?})", g), Err(e) => e.chars().take(300).collect() };
                ctx.violation(
                    format!("keygen-fails-after-history:n={}:{}", V::N, name),
                    format!("{}::keygen(seed {}) after history {} in a fresh process does not return a key although the same call alone in a fresh process does: {}", V::name(), label, name, why),
                    json!({"kind":"process-history","variant":V::N,"seed":hex(&seed),"history":name}),
                );
                continue;
            }
        };
        if got != base {
            ctx.violation(
                format!("keygen-depends-on-history:n={}:{}", V::N, name),
                format!("{}::keygen(seed {}) after history {} in a fresh process differs from keygen in a fresh process (sk starts {} vs {})", V::name(), label, name, &got[..got.len().min(16)], &base[..16]),
                json!({"kind":"process-history","variant":V::N,"seed":hex(&seed),"history":name}),
            );
        }
    }
    part.exhaustive = true;
    part.outcome(format!("baseline sk prefix {}", &base[..16]));
    ctx.add_part(part);

    // in-process: same thread twice, long-lived other thread, fresh thread, and interleavings
    let mut part = Part::new(
        &format!("in_process_{}_{}", V::N, label),
        "in this (long-running, both-variants) process: keygen(seed) twice on one thread, on a long-lived second thread, on a freshly spawned thread; call-level interleavings of T1 = [keygen(s), keygen(s)] and T2 = [sign (other key), keygen(s)] (all 6; the quick tier keeps one mixed interleaving at n = 1024); every result equals the fresh-process baseline",
    );
    let w0 = Worker::new("K0");
    let w1 = Worker::new("K1");
    let mut check = |ctx: &mut Ctx, part: &mut Part, name: &str, got: Result<String, String>| {
        part.states += 1;
        part.transitions += 1;
        part.validated += 1;
        match got {
            Ok(g) if g == base => {}
            Ok(g) => ctx.violation(
                format!("keygen-not-repeatable:n={}:{}", V::N, name),
                format!("{}::keygen(seed {}) {} differs from keygen in a fresh process (sk starts {} vs {})", V::name(), label, name, &g[..16], &base[..16]),
                json!({"kind":"in-process","variant":V::N,"seed":hex(&seed),"where":name}),
            ),
            Err(e) => ctx.violation(format!("keygen-panic:n={}", V::N), format!("{}::keygen(seed {}) panicked {}: {}", V::name(), label, name, e), json!({"kind":"in-process","variant":V::N,"seed":hex(&seed),"where":name})),
        }
    };
    check(ctx, &mut part, "on thread K0 (first call)", w0.call(move || kg::<V>(seed)));
    check(ctx, &mut part, "on thread K0 (second call)", w0.call(move || kg::<V>(seed)));
    check(ctx, &mut part, "on long-lived thread K1", w1.call(move || kg::<V>(seed)));
    check(ctx, &mut part, "on a freshly spawned thread", on_fresh_thread(move || kg::<V>(seed)));
    let (sk_other, _) = crate::api::key::<V512>(SA);
    let sk_other = std::sync::Arc::new(sk_other);
    let mut ils = interleavings(&[2, 2]);
    if !tier.thorough() && V::N == 1024 {
        // key generation at n = 1024 costs seconds: quick tier keeps the two extreme interleavings
        ils = vec![ils[2].clone()];
    }
    let nil = ils.len();
    for il in ils {
        let mut pos = [0usize; 2];
        for &t in &il {
            let step = pos[t];
            pos[t] += 1;
            let w = if t == 0 { &w0 } else { &w1 };
            let name = format!("in interleaving {:?} (thread {} step {})", il, t, step);
            if t == 1 && step == 0 {
                let k = sk_other.clone();
                let _ = w.call(move || {
                    let _ = V512::sign(b"interleaved", &k);
                });
                part.transitions += 1;
            } else {
                check(ctx, &mut part, &name, w.call(move || kg::<V>(seed)));
            }
        }
    }
    part.exhaustive = nil == 6;
    part.set("interleavings", json!(nil));
    part.outcome("equal to baseline".to_string());
    ctx.add_part(part);
}

/// light repetition check for seeds chosen by the branch they exercise: twice on one thread, once on a
/// fresh thread, once in a fresh process
fn repeat_for<V: Variant>(ctx: &mut Ctx, seed: u64, why: &str) {
    let sb = seed_bytes(seed);
    let target = target_name::<V>(sb);
    let mut part = Part::new(&format!("repeat_{}_LE64({})", V::N, seed), &format!("{}::keygen(LE64({})) [{}]: twice on one thread, on a freshly spawned thread and in a fresh child process; all four key pairs byte-identical", V::name(), seed, why));
    let a = crate::ctx::catch(|| kg::<V>(sb));
    let b = crate::ctx::catch(|| kg::<V>(sb));
    let c = on_fresh_thread(move || kg::<V>(sb));
    // a child process that fails shows up as a key that differs (its error text), i.e. as a violation
    let d = child_target(&[], &target, false).unwrap_or_else(|e| format!("child process failed: {}", e));
    part.states = 4;
    part.transitions = 4;
    part.validated = 3;
    match (a, b, c) {
        (Ok(a), Ok(b), Ok(c)) => {
            if a != b || a != c || a != d {
                let which = if a != b { "a second call on the same thread" } else if a != c { "a call on a fresh thread" } else { "a call in a fresh process" };
                ctx.violation(
                    format!("keygen-not-repeatable:n={}:seed={}", V::N, seed),
                    format!("{}::keygen(LE64({})) [{}] differs between the first call and {} (sk starts {} vs {})", V::name(), seed, why, which, &a[..16], if a != b { &b[..16] } else if a != c { &c[..16] } else { &d[..d.len().min(16)] }),
                    json!({"kind":"repeat","variant":V::N,"seed":hex(&sb)}),
                );
            } else {
                part.outcome("four identical key pairs".to_string());
            }
        }
        other => ctx.violation(format!("keygen-panic:n={}", V::N), format!("{}::keygen(LE64({})) panicked: {:?}", V::name(), seed, (other.0.err(), other.1.err(), other.2.err())), json!({"kind":"repeat","variant":V::N,"seed":hex(&sb)})),
    }
    part.exhaustive = true;
    ctx.add_part(part);
}

fn bit_flips<V: Variant>(ctx: &mut Ctx, seed: [u8; 32], label: &str, bits: Vec<usize>) {
    let base = kg::<V>(seed);
    let res: Vec<(usize, String)> = bits
        .par_iter()
        .map(|&b| {
            let mut s = seed;
            s[b / 8] ^= 1 << (b % 8);
            (b, kg::<V>(s))
        })
        .collect();
    let mut part = Part::new(&format!("seed_bit_flips_{}_{}", V::N, label), &format!("{}::keygen on seed {} with single-bit flips at {} bit positions{}: the key pair must differ from the unflipped one (how many flips leave only the secret or only the public key unchanged, and how many distinct pairs arise, is reported)", V::name(), label, bits.len(), if bits.len() == 256 { " (all)" } else { " (a regular subset; all 256 in the thorough tier)" }));
    let mut seen: BTreeSet<String> = BTreeSet::new();
    let (bsk, bpk) = base.split_once(':').unwrap();
    seen.insert(base.clone());
    let (mut same_sk, mut same_pk) = (0u32, 0u32);
    for (b, k) in res {
        part.states += 1;
        part.transitions += 1;
        part.validated += 1;
        let (sk, pk) = k.split_once(':').unwrap();
        seen.insert(k.clone());
        if sk == bsk {
            same_sk += 1;
        }
        if pk == bpk {
            same_pk += 1;
        }
        // the property: keygen(seed xor e_i) != keygen(seed) as a key pair
        if sk == bsk && pk == bpk {
            ctx.violation(
                format!("seed-bit-ignored:n={}:bit{}", V::N, b),
                format!("{}::keygen: flipping bit {} of seed {} does not change the key pair", V::name(), b, label),
                json!({"kind":"bitflip","variant":V::N,"seed":hex(&seed),"bit":b}),
            );
        }
    }
    part.set("flips_leaving_the_secret_key_unchanged", json!(same_sk));
    part.set("flips_leaving_the_public_key_unchanged", json!(same_pk));
    part.exhaustive = bits.len() == 256;
    part.outcome(format!("distinct key pairs {}", seen.len()));
    ctx.add_part(part);
}

pub fn run(tier: Tier) {
    let mut ctx = Ctx::new("C15", tier);
    let off = ctx.seed.wrapping_mul(4096);
    // target seeds: the window's first seed, and the first seed whose key has a coefficient of f or g
    // of magnitude >= 16 (the 1024 variant's field limit: a seed on which variant-dependent state
    // would matter)
    let mut mags: Vec<(u64, i16)> = vec![];
    let mut big: Option<u64> = None;
    for batch in 0..10u64 {
        let scan: Vec<u64> = (0..24u64).map(|i| off + batch * 24 + i).collect();
        let m: Vec<(u64, i16)> = scan.par_iter().map(|&s| (s, max_fg::<V512>(s))).collect();
        big = m.iter().find(|(_, x)| *x >= 16).map(|(s, _)| *s);
        mags.extend(m);
        if big.is_some() {
            break;
        }
    }
    let mut t512: Vec<u64> = vec![off];
    match big {
        Some(b) if b != off => t512.push(b),
        Some(_) => {}
        None => ctx.cap("C15: no seed with an f/g coefficient >= 16 among 240 scanned seeds; the variant-crossing histories run on ordinary seeds only"),
    }
    ctx.set("max_abs_fg_by_seed_512", json!(mags));
    if tier.thorough() {
        t512.push(off + 2);
        t512.push(785);
    }
    for &s in &t512 {
        histories_for::<V512>(&mut ctx, tier, seed_bytes(s), &format!("LE64({})", s));
    }
    let t1024: Vec<u64> = if tier.thorough() { vec![off, off + 1, 14] } else { vec![off] };
    for &s in &t1024 {
        histories_for::<V1024>(&mut ctx, tier, seed_bytes(s), &format!("LE64({})", s));
    }
    // a seed with high bytes set
    let mut ff = [0xffu8; 32];
    ff[0] = 0xfe;
    if tier.thorough() {
        histories_for::<V512>(&mut ctx, Tier::Quick, ff, "fe||ff^31");
    }

    // seeds on which key generation's rejection loop runs longest (a retry-count dependent behaviour shows here)
    let top = if tier.thorough() { 3 } else { 1 };
    let long512 = crate::util::seeds_with_most_rejections(512, off, 256, top);
    let long1024 = crate::util::seeds_with_most_rejections(1024, off, 128, top);
    ctx.set("seeds_with_longest_rejection_runs", json!({"512": long512, "1024": long1024}));
    for (s, k) in &long512 {
        repeat_for::<V512>(&mut ctx, *s, &format!("at least {} rejected candidates", k));
    }
    for (s, k) in &long1024 {
        repeat_for::<V1024>(&mut ctx, *s, &format!("at least {} rejected candidates", k));
    }
    bit_flips::<V512>(&mut ctx, seed_bytes(off), &format!("LE64({})", off), (0..256).collect());
    // seeds at the other end of every byte's range (arithmetic on seed bytes saturates or wraps there)
    bit_flips::<V512>(&mut ctx, [0xffu8; 32], "ff^32", (0..256).collect());
    bit_flips::<V1024>(&mut ctx, [0xffu8; 32], "ff^32", if tier.thorough() { (0..256).collect() } else { (0..256).step_by(32).chain(244..256).collect() });
    if tier.thorough() {
        bit_flips::<V512>(&mut ctx, ff, "fe||ff^31", (0..256).collect());
        bit_flips::<V1024>(&mut ctx, seed_bytes(off), &format!("LE64({})", off), (0..256).collect());
    } else {
        bit_flips::<V1024>(&mut ctx, seed_bytes(off), &format!("LE64({})", off), (0..256).step_by(16).collect());
    }
    // seeds on which key generation takes its retry branches (first candidate does not fit the fixed-width
    // encoding; longest run of rejected candidates): whatever is derived from the seed on a retry must still
    // depend on every bit of it
    bit_flips::<V512>(&mut ctx, seed_bytes(785), "LE64(785) [first candidate does not fit the encoding]", if tier.thorough() { (0..256).collect() } else { (0..256).step_by(8).chain(240..256).collect() });
    bit_flips::<V1024>(&mut ctx, seed_bytes(14), "LE64(14) [first candidate does not fit the encoding]", if tier.thorough() { (0..256).collect() } else { (0..256).step_by(16).chain(248..256).collect() });
    if let Some((s, k)) = long512.first() {
        bit_flips::<V512>(&mut ctx, seed_bytes(*s), &format!("LE64({}) [at least {} rejected candidates]", s, k), if tier.thorough() { (0..256).collect() } else { (0..256).step_by(8).chain(248..256).collect() });
    }
    crate::e5::run_part(&mut ctx, if tier.thorough() { "keygen,keygen2,keygen_stream,keygen3" } else { "keygen,keygen2,keygen_stream" });
    ctx.sample(json!({"target":"falcon512::keygen(LE64(0)||0^24)","history":"[B: falcon1024::keygen(s''), target] in a fresh process","expected":"same bytes as a fresh process running only the target"}));
    ctx.assume("seeds outside the enumerated ones are not covered; StdRng::from_seed takes all 32 bytes as the ChaCha key and the float pipeline is deterministic");
    ctx.assume("call-level interleavings only (one call at a time); intra-call preemption is not explored");
    ctx.finish();
}

pub fn replay(case: &Value) -> Result<Option<String>, String> {
    if case.get("kind").and_then(|k| k.as_str()) .map(|k| k == "e5" || k == "e5-setup").unwrap_or(false) {
        return crate::e5::replay(case);
    }
    let kind = case.get("kind").and_then(|k| k.as_str()).ok_or("no kind")?;
    let variant = case.get("variant").and_then(|x| x.as_u64()).ok_or("variant")?;
    let seed = parse_seed(case.get("seed").and_then(|x| x.as_str()).ok_or("seed")?);
    match kind {
        "bitflip" => {
            let b = case.get("bit").and_then(|x| x.as_u64()).ok_or("bit")? as usize;
            let mut s = seed;
            s[b / 8] ^= 1 << (b % 8);
            let (a, c) = if variant == 512 { (kg::<V512>(seed), kg::<V512>(s)) } else { (kg::<V1024>(seed), kg::<V1024>(s)) };
            let (ask, apk) = a.split_once(':').unwrap();
            let (csk, cpk) = c.split_once(':').unwrap();
            Ok(if ask == csk && apk == cpk { Some(format!("flipping seed bit {} leaves the key pair unchanged", b)) } else { None })
        }
        "repeat" => {
            let (a, b) = if variant == 512 { (kg::<V512>(seed), kg::<V512>(seed)) } else { (kg::<V1024>(seed), kg::<V1024>(seed)) };
            Ok(if a != b { Some("two keygen calls with the same seed on one thread give different keys".to_string()) } else { None })
        }
        "process-history" => {
            let h = case.get("history").and_then(|x| x.as_str()).ok_or("history")?;
            let inner = h.trim_start_matches('[');
            let (ops, rest) = inner.split_once(']').ok_or("history format")?;
            let prefix: Vec<&str> = if ops.is_empty() { vec![] } else { ops.split(',').collect() };
            let fresh = rest.contains("spawned");
            let target = format!("T{}:{}", variant, hex(&seed));
            let base = child_target(&[], &target, false)?;
            let got = child_target(&prefix, &target, fresh).unwrap_or_else(|e| format!("child process failed: {}", e));
            Ok(if got != base { Some(format!("keygen after history {} differs from keygen in a fresh process", h)) } else { None })
        }
        _ => Err("re-run ./vf check C15".into()),
    }
}

//! Child-process entry points (fresh process = fresh thread_rng, fresh statics).
pub fn run(_args: &[String]) {
    std::process::exit(2)
}

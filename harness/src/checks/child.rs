//! Child-process entry points (fresh process = fresh thread_rng, fresh statics).
pub fn run(args: &[String]) {
    match args.first().map(|s| s.as_str()) {
        Some("salts") => super::c08::child_salts(),
        Some("keygen") => super::c15::child_keygen(&args[1..]),
        Some("history") => crate::history::child_history(&args[1..]),
        _ => std::process::exit(2),
    }
    std::process::exit(0)
}

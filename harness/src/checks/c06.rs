//! C06 - decoding is strict: whatever from_bytes accepts re-encodes to the same bytes, and
//! acceptance agrees with the reference key / signature framing (E1 over lengths x headers and
//! over single fields; acceptance sets are products of independent fields). For secret keys the oracle is
//! three-valued: malformed => Err; well-formed NTRU basis with G in range => Ok; well-formed otherwise => either.

use super::{found, Found};
use crate::api::{Variant, V1024, V512};
use crate::ctx::{catch, hex, unhex, Ctx, Part, Tier};
use crate::refmodel::{keycodec, sig_len, Q};
use rayon::prelude::*;
use serde_json::{json, Value};
use std::collections::BTreeMap;

#[derive(Default)]
struct Tally {
    cases: u64,
    accepted: u64,
    rejected: u64,
    stricter: u64,
    found: BTreeMap<String, Found>,
    nviol: u64,
}

impl Tally {
    fn viol(&mut self, key: String, what: String, case: Value) {
        self.nviol += 1;
        self.found.entry(key.clone()).or_insert_with(|| found(key, what, case));
    }
    fn merge(&mut self, o: Tally) {
        self.cases += o.cases;
        self.accepted += o.accepted;
        self.rejected += o.rejected;
        self.stricter += o.stricter;
        self.nviol += o.nviol;
        for (k, v) in o.found {
            self.found.entry(k).or_insert(v);
        }
    }
    fn into_part(self, ctx: &mut Ctx, mut part: Part) {
        part.states = self.cases;
        part.transitions = self.cases + self.accepted;
        part.validated = self.cases;
        part.outcome(format!("accepted and re-encoded identically x{}", self.accepted));
        part.outcome(format!("rejected x{}", self.rejected));
        if self.stricter > 0 {
            part.outcome(format!("of these, well-formed secret-key fields that are not an NTRU basis with G in range (rejecting them is outside the property) x{}", self.stricter));
        }
        part.set("violating_cases", json!(self.nviol));
        for (_, f) in self.found {
            ctx.violation(f.key, f.what, f.case);
        }
        ctx.add_part(part);
    }
}

fn reduce(mut a: Tally, b: Tally) -> Tally {
    a.merge(b);
    a
}

fn short(b: &[u8]) -> String {
    if b.len() <= 10 {
        hex(b)
    } else {
        format!("{}.. ({} bytes)", hex(&b[..6]), b.len())
    }
}

/// reference acceptance for the format classes the property lists; None = the reference has no
/// opinion (e.g. a well-formed secret key whose f is not invertible)
fn ref_accepts<V: Variant>(which: &str, b: &[u8]) -> bool {
    match which {
        "PublicKey" => keycodec::pk_decode(b, V::N).is_some(),
        "SecretKey" => keycodec::sk_decode(b, V::N).is_some(),
        _ => b.len() == sig_len(V::N) && b[0] == (0x50 | keycodec::logn(V::N)),
    }
}

/// A well-formed secret-key string is one the property obliges nobody to accept unless it is what a key generator
/// can have written: f invertible modulo q, G = g F / f exists over the integers with f G - g F = q and fits its
/// 8-bit field (reference implementations recompute G on import and refuse the key otherwise).
fn sk_is_ntru_basis(n: usize, b: &[u8]) -> bool {
    let Some((f, g, cf)) = keycodec::sk_decode(b, n) else { return false };
    let Some(finv) = crate::refmodel::poly::inv_q(&f) else { return false };
    let gf = crate::refmodel::poly::mul_q(&g, &cf);
    let cg: Vec<i64> = crate::refmodel::poly::mul_q(&gf, &finv).iter().map(|&x| crate::refmodel::zq::centred(x)).collect();
    if cg.iter().any(|&x| x.abs() > 127) {
        return false;
    }
    let a = crate::refmodel::poly::mul_z(&f, &cg);
    let c = crate::refmodel::poly::mul_z(&g, &cf);
    (0..n).all(|i| a[i] - c[i] == if i == 0 { Q as i128 } else { 0 })
}

fn strict_case<V: Variant>(t: &mut Tally, which: &str, b: &[u8], tag: &str) {
    t.cases += 1;
    let r: Result<Result<Vec<u8>, String>, String> = match which {
        "PublicKey" => catch(|| V::pk_from_bytes(b).map(|x| V::pk_to_bytes(&x))),
        "SecretKey" => catch(|| V::sk_from_bytes(b).map(|x| V::sk_to_bytes(&x))),
        _ => catch(|| V::sig_from_bytes(b).map(|x| V::sig_to_bytes(&x))),
    };
    let case = || json!({"kind":"strict","variant":V::N,"type":which,"hex":hex(b)});
    let site = format!("{}::{}", V::name(), which);
    let want = ref_accepts::<V>(which, b);
    match r {
        Err(p) => t.viol(format!("{}:panic:{}", site, tag), format!("{}::from_bytes({}) panicked: {}", site, short(b), p), case()),
        Ok(Ok(back)) => {
            t.accepted += 1;
            if back != b {
                let k = (0..back.len().min(b.len())).find(|&k| back[k] != b[k]).unwrap_or(back.len().min(b.len()));
                t.viol(format!("{}:not-canonical:{}", site, tag), format!("{}::from_bytes({}) is Ok but to_bytes() differs (first difference at byte {}, lengths {} / {})", site, short(b), k, b.len(), back.len()), case());
            } else if !want {
                t.viol(format!("{}:accepts-invalid:{}", site, tag), format!("{}::from_bytes({}) is Ok but the reference format rejects it", site, short(b)), case());
            }
        }
        Ok(Err(e)) => {
            t.rejected += 1;
            if want && which == "SecretKey" && !sk_is_ntru_basis(V::N, b) {
                t.stricter += 1;
            } else if want {
                t.viol(format!("{}:rejects-valid:{}", site, tag), format!("{}::from_bytes({}) = Err({}) but the reference format accepts it", site, short(b), e), case());
            }
        }
    }
}

fn pattern(p: usize, len: usize, valid: &[u8]) -> Vec<u8> {
    match p {
        0 => vec![0x00; len],
        1 => vec![0xff; len],
        2 => vec![0x55; len],
        3 => vec![0xaa; len],
        4 => vec![0x80; len],
        _ => (0..len).map(|i| valid[i % valid.len()]).collect(),
    }
}

fn set_bits(buf: &mut [u8], pos: usize, width: usize, value: u32) {
    for i in 0..width {
        let bit = (value >> (width - 1 - i)) & 1 == 1;
        let p = pos + i;
        let mask = 1u8 << (7 - (p % 8));
        if bit {
            buf[p / 8] |= mask;
        } else {
            buf[p / 8] &= !mask;
        }
    }
}

struct Objects {
    pk: Vec<u8>,
    sk: Vec<u8>,
    sig: Vec<u8>,
}

fn one_variant<V: Variant>(ctx: &mut Ctx, tier: Tier, own: &Objects, other: &Objects) {
    let n = V::N;
    // lengths x headers x patterns
    for (which, maxlen, valid) in [("PublicKey", 1800usize, &own.pk), ("SecretKey", 2400, &own.sk), ("Signature", 1400, &own.sig)] {
        let accepting = [897usize, 1793, 1281, 2305, 666, 1280];
        let step = if tier.thorough() { 1 } else { 5 };
        let lens: Vec<usize> = (1..=maxlen).filter(|&l| step == 1 || l < 48 || l % step == 0 || accepting.iter().any(|&a| l + 2 >= a && l <= a + 2)).collect();
        let t = lens
            .par_iter()
            .map(|&len| {
                let mut t = Tally::default();
                for p in 0..6 {
                    let mut b = pattern(p, len, valid);
                    for h in 0..=255u8 {
                        b[0] = h;
                        strict_case::<V>(&mut t, which, &b, "lengths-headers");
                    }
                }
                t
            })
            .reduce(Tally::default, reduce);
        let mut part = Part::new(
            &format!("lengths_headers_{}_{}", which, n),
            &format!("{}::{}::from_bytes: lengths {} x all 256 header bytes x 6 body patterns; Ok => to_bytes reproduces the input; Err on everything the reference framing rejects, Ok on everything it accepts (secret keys: on every well-formed NTRU basis; other well-formed strings may be refused)", V::name(), which, if step == 1 { format!("1..={}", maxlen) } else { format!("1..47, every {}th up to {}, +-2 around each accepting length", step, maxlen) }),
        );
        part.exhaustive = true;
        t.into_part(ctx, part);
    }
    // the other variant's well-formed objects, and own objects with every header
    let mut t = Tally::default();
    for (which, b) in [("PublicKey", &other.pk), ("SecretKey", &other.sk), ("Signature", &other.sig)] {
        strict_case::<V>(&mut t, which, b, "other-variant");
        for h in 0..=255u8 {
            let mut c = b.clone();
            c[0] = h;
            strict_case::<V>(&mut t, which, &c, "other-variant-header");
        }
    }
    for (which, b) in [("PublicKey", &own.pk), ("SecretKey", &own.sk), ("Signature", &own.sig)] {
        for h in 0..=255u8 {
            let mut c = b.clone();
            c[0] = h;
            strict_case::<V>(&mut t, which, &c, "own-header");
        }
        // one byte short / long
        let mut c = b.clone();
        c.push(0);
        strict_case::<V>(&mut t, which, &c, "one-byte-long");
        c.pop();
        c.pop();
        strict_case::<V>(&mut t, which, &c, "one-byte-short");
    }
    let mut part = Part::new(&format!("variants_headers_{}", n), "well-formed objects of the other variant (and with each of the 256 header bytes), own well-formed objects with each header byte and one byte short/long");
    part.exhaustive = true;
    t.into_part(ctx, part);

    // public-key fields
    let flds: Vec<usize> = vec![0, 1, n / 2, n - 1];
    let t = flds
        .par_iter()
        .map(|&fld| {
            let mut t = Tally::default();
            let mut b = own.pk.clone();
            for v in 0..(1u32 << 14) {
                set_bits(&mut b, 8 + 14 * fld, 14, v);
                strict_case::<V>(&mut t, "PublicKey", &b, if (v as i64) < Q { "pk-field-in-range" } else { "pk-field>=q" });
            }
            t
        })
        .reduce(Tally::default, reduce);
    let mut part = Part::new(&format!("pk_fields_all_values_{}", n), "all 2^14 values at public-key fields 0, 1, n/2, n-1 (values >= q must be rejected)");
    part.exhaustive = true;
    t.into_part(ctx, part);
    let t = (0..n)
        .into_par_iter()
        .map(|fld| {
            let mut t = Tally::default();
            for v in [0u32, 1, 12288, 12289, 12290, 24578, 16383] {
                let mut b = own.pk.clone();
                set_bits(&mut b, 8 + 14 * fld, 14, v);
                strict_case::<V>(&mut t, "PublicKey", &b, if (v as i64) < Q { "pk-field-in-range" } else { "pk-field>=q" });
            }
            t
        })
        .reduce(Tally::default, reduce);
    let mut part = Part::new(&format!("pk_fields_edges_{}", n), "values {0,1,q-1,q,q+1,2q,16383} at every one of the n public-key fields");
    part.exhaustive = true;
    t.into_part(ctx, part);

    // secret-key fields
    let w = keycodec::fg_bits(n);
    let mut jobs = vec![];
    for (width, base) in [(w, 8usize), (w, 8 + n * w), (8, 8 + 2 * n * w)] {
        for fld in [0usize, 1, n - 1] {
            for v in 0..(1u32 << width) {
                jobs.push((width, base + fld * width, v, false));
            }
        }
    }
    for (width, base, cnt) in [(w, 8usize, 2 * n), (8, 8 + 2 * n * w, n)] {
        for fld in 0..cnt {
            jobs.push((width, base + fld * width, 1 << (width - 1), true));
        }
    }
    let t = jobs
        .par_iter()
        .map(|&(width, pos, v, reserved)| {
            let mut t = Tally::default();
            let mut b = own.sk.clone();
            set_bits(&mut b, pos, width, v);
            strict_case::<V>(&mut t, "SecretKey", &b, if reserved || v == 1 << (width - 1) { "sk-reserved" } else { "sk-field" });
            t
        })
        .reduce(Tally::default, reduce);
    let mut part = Part::new(&format!("sk_fields_{}", n), "all 2^w values at the first, second and last field of f, g, F; the reserved value -2^(w-1) at every one of the 3n fields");
    part.exhaustive = true;
    t.into_part(ctx, part);

    // two and three deviations at once: a check that counts, folds or short-circuits over several bad fields must
    // still reject (every subset of size 2 and 3 of 12 secret-key positions, 4 per polynomial; every pair of 6
    // public-key positions x two out-of-range values)
    let mut sk_pos: Vec<(usize, usize)> = vec![];
    for (width, base) in [(w, 8usize), (w, 8 + n * w), (8, 8 + 2 * n * w)] {
        for fld in [0usize, 1, n / 2, n - 1] {
            sk_pos.push((width, base + fld * width));
        }
    }
    let mut subsets: Vec<Vec<usize>> = vec![];
    for a in 0..sk_pos.len() {
        for b in a + 1..sk_pos.len() {
            subsets.push(vec![a, b]);
            for c in b + 1..sk_pos.len() {
                subsets.push(vec![a, b, c]);
            }
        }
    }
    subsets.push((0..sk_pos.len()).collect());
    subsets.push((0..sk_pos.len()).step_by(2).collect());
    let t = subsets
        .par_iter()
        .map(|sub| {
            let mut t = Tally::default();
            let mut b = own.sk.clone();
            for &i in sub {
                let (width, pos) = sk_pos[i];
                set_bits(&mut b, pos, width, 1 << (width - 1));
            }
            strict_case::<V>(&mut t, "SecretKey", &b, &format!("sk-reserved-x{}", sub.len().min(4)));
            t
        })
        .reduce(Tally::default, reduce);
    let mut part = Part::new(&format!("sk_reserved_subsets_{}", n), "the reserved value at every subset of size 2 and 3 (and two larger ones) of 12 field positions (first, second, middle, last field of f, g and F): all must be rejected");
    part.exhaustive = true;
    t.into_part(ctx, part);
    // the reserved value inside a string that is otherwise beyond reproach: a genuine basis with F replaced by
    // F + c X^k f (still an NTRU basis for the same f, g) for the (c, k) that put exactly -128 into some F fields and
    // keep every other field in range. A decoder that cross-checks the key (NTRU equation, recomputed G) rejects
    // every *planted* reserved value for that reason alone; here only the field test can reject. The shifts whose
    // F stays within +-127 (and whose G fits) are well-formed keys and serve as the accepted counterpart.
    {
        let bases: Vec<(Vec<i64>, Vec<i64>, Vec<i64>)> = (0..4u64).filter_map(|s| { let (sk, _) = crate::api::key::<V>(s); keycodec::sk_decode(&V::sk_to_bytes(&sk), n) }).collect();
        let mut jobs = vec![];
        for (bi, _) in bases.iter().enumerate() {
            for c in (1i64..=16).flat_map(|c| [c, -c]) {
                for k in 0..n {
                    jobs.push((bi, c, k));
                }
            }
        }
        let fbase = 8 + 2 * n * w;
        let found_any: Vec<(Vec<u8>, bool)> = jobs
            .par_iter()
            .filter_map(|&(bi, c, k)| {
                let (f, g, cf) = &bases[bi];
                let sh = crate::refmodel::poly::shift_z(f, k);
                let cfp: Vec<i64> = (0..n).map(|i| cf[i] + c * sh[i]).collect();
                if cfp.iter().any(|&x| x < -128 || x > 127) {
                    return None;
                }
                let reserved = cfp.iter().any(|&x| x == -128);
                if !reserved && !(k < 4 && c.abs() == 1) {
                    return None;
                }
                let clean: Vec<i64> = cfp.iter().map(|&x| if x == -128 { 0 } else { x }).collect();
                let mut b = keycodec::sk_encode(f, g, &clean)?;
                for (i, &x) in cfp.iter().enumerate() {
                    if x == -128 {
                        set_bits(&mut b, fbase + 8 * i, 8, 0x80);
                    }
                }
                Some((b, reserved))
            })
            .collect();
        let mut t = Tally::default();
        let mut nres = 0;
        for (b, reserved) in &found_any {
            if *reserved {
                nres += 1;
            }
            strict_case::<V>(&mut t, "SecretKey", b, if *reserved { "sk-reserved-in-ntru-basis" } else { "sk-shifted-basis" });
        }
        let mut part = Part::new(&format!("sk_reserved_in_consistent_basis_{}", n), &format!("four generated keys x F + c X^k f for c in {{+-1, ..., +-16}} and every k: the {} shifted bases in which some F fields are exactly -128 and all others in range, written with the reserved byte 0x80 (must be rejected: nothing but the field test can tell), and the in-range shifts for k < 4, c = +-1 (well-formed keys)", nres));
        part.exhaustive = true;
        t.into_part(ctx, part);
    }
    let pk_pos: Vec<usize> = vec![0, 1, n / 2 - 1, n / 2, n - 2, n - 1];
    let mut t = Tally::default();
    for a in 0..pk_pos.len() {
        for b2 in a + 1..pk_pos.len() {
            for (va, vb) in [(12289u32, 12289u32), (12289, 16383), (16383, 12289), (16383, 16383), (24578, 12289)] {
                let mut b = own.pk.clone();
                set_bits(&mut b, 8 + 14 * pk_pos[a], 14, va);
                set_bits(&mut b, 8 + 14 * pk_pos[b2], 14, vb);
                strict_case::<V>(&mut t, "PublicKey", &b, "pk-field>=q-x2");
            }
        }
    }
    let mut part = Part::new(&format!("pk_out_of_range_pairs_{}", n), "out-of-range values (q, 2q, 16383) at every pair of the public-key fields {0, 1, n/2-1, n/2, n-2, n-1}: all must be rejected");
    part.exhaustive = true;
    t.into_part(ctx, part);

    // signatures: the single accepted header with arbitrary bodies (bodies are copied verbatim)
    let l = sig_len(n);
    let mut t = Tally::default();
    for p in 0..=255u8 {
        let mut b = vec![p; l];
        b[0] = 0x50 | keycodec::logn(n);
        strict_case::<V>(&mut t, "Signature", &b, "sig-body");
    }
    let mut part = Part::new(&format!("sig_bodies_{}", n), "accepted header with 256 uniform bodies (salt and body bytes are copied verbatim both ways)");
    part.exhaustive = true;
    t.into_part(ctx, part);
}

fn objects<V: Variant>() -> Objects {
    let (sk, pk) = crate::api::key::<V>(0);
    Objects { pk: V::pk_to_bytes(&pk), sk: V::sk_to_bytes(&sk), sig: V::sig_to_bytes(&V::sign(b"data1", &sk)) }
}

pub fn run(tier: Tier) {
    let mut ctx = Ctx::new("C06", tier);
    let o512 = objects::<V512>();
    let o1024 = objects::<V1024>();
    one_variant::<V512>(&mut ctx, tier, &o512, &o1024);
    one_variant::<V1024>(&mut ctx, tier, &o1024, &o512);
    ctx.sample(json!({"type":"falcon512 PublicKey","field0":12289,"reference":"reject (>= q)"}));
    ctx.sample(json!({"type":"falcon512 Signature","header":"0x59","len":666,"reference":"accept"}));
    ctx.assume("reference framing: spec 3.11.4/3.11.5 (key codecs, validated against PQClean modq_decode/trim_i8_decode at setup); signatures: exactly header 0x50|logn and the variant's fixed length");
    ctx.assume("acceptance sets are products of independent fields, so varying one field at a time inside a valid object covers every field's acceptance set");
    ctx.finish();
}

pub fn replay(case: &Value) -> Result<Option<String>, String> {
    let variant = case.get("variant").and_then(|x| x.as_u64()).ok_or("variant")?;
    let ty = case.get("type").and_then(|k| k.as_str()).ok_or("type")?.to_string();
    let b = unhex(case.get("hex").and_then(|k| k.as_str()).ok_or("hex")?);
    let mut t = Tally::default();
    if variant == 512 {
        strict_case::<V512>(&mut t, &ty, &b, "replay")
    } else {
        strict_case::<V1024>(&mut t, &ty, &b, "replay")
    }
    Ok(t.found.into_iter().next().map(|(_, f)| f.what))
}

//! C09 - the integer Gaussian sampler is total and follows D_{Z,mu,sigma'}.
//! (a) building blocks vs the specification on generating sets, (b) step conformance of sampler_z
//! under exhaustive short answer sequences, (c) exact output law of the real decision function
//! (thresholds extracted by binary search) against the ideal discrete Gaussian.

use super::{found, Found};
use crate::ctx::{catch, hex, machinery_error, Ctx, Part, Tier};
use crate::envrng::IterRng;
use crate::refmodel::samplerz as rs;
use crate::refmodel::{sigma_min, SIGMA_MAX};
use falcon_rust::verif_hooks as fh;
use rayon::prelude::*;
use serde_json::{json, Value};
use std::collections::BTreeMap;

const TWO72: u128 = 1u128 << 72;

#[derive(Default)]
struct Tally {
    cases: u64,
    calls: u64,
    outcomes: BTreeMap<String, u64>,
    found: BTreeMap<String, Found>,
    nviol: u64,
}

impl Tally {
    fn viol(&mut self, key: String, what: String, case: Value) {
        self.nviol += 1;
        self.found.entry(key.clone()).or_insert_with(|| found(key, what, case));
    }
    fn out(&mut self, o: &str) {
        *self.outcomes.entry(o.to_string()).or_insert(0) += 1;
    }
    fn merge(&mut self, o: Tally) {
        self.cases += o.cases;
        self.calls += o.calls;
        self.nviol += o.nviol;
        for (k, v) in o.outcomes {
            *self.outcomes.entry(k).or_insert(0) += v;
        }
        for (k, v) in o.found {
            self.found.entry(k).or_insert(v);
        }
    }
    fn into_part(self, ctx: &mut Ctx, mut part: Part) {
        part.states = self.cases;
        part.transitions = self.calls;
        part.validated = self.cases;
        for (o, c) in &self.outcomes {
            part.outcome(format!("{} x{}", o, c));
        }
        part.set("violating_cases", json!(self.nviol));
        for (_, f) in self.found {
            ctx.violation(f.key, f.what, f.case);
        }
        ctx.add_part(part);
    }
}

fn reduce(mut a: Tally, b: Tally) -> Tally {
    a.merge(b);
    a
}

// ------------------------------------------------------------------ (a) building blocks

fn check_base(t: &mut Tally, u: u128) {
    t.cases += 1;
    t.calls += 1;
    let bytes = rs::u_to_bytes(u);
    let want = rs::base_sampler_u(u);
    match catch(|| fh::base_sampler(bytes)) {
        Ok(got) if got as i64 == want => t.out(&format!("z0={}", want)),
        Ok(got) => t.viol(format!("base_sampler:z0={}", want), format!("base_sampler(u={}) = {} but #{{i: u < RCDT[i]}} = {}", u, got, want), json!({"kind":"base","u":u.to_string()})),
        Err(e) => t.viol("base_sampler:panic".into(), format!("base_sampler(u={}) panicked: {}", u, e), json!({"kind":"base","u":u.to_string()})),
    }
}

fn base_part(ctx: &mut Ctx) {
    let mut t = Tally::default();
    for i in 0..18 {
        check_base(&mut t, rs::RCDT[i] - 1);
        check_base(&mut t, rs::RCDT[i]);
        check_base(&mut t, rs::RCDT[i] + 1);
    }
    check_base(&mut t, 0);
    check_base(&mut t, TWO72 - 1);
    // extraction of the implementation's thresholds by binary search: tau_k = min{u : base(u) <= k}
    let mut extracted = vec![];
    for k in 0..18i64 {
        let (mut lo, mut hi) = (0u128, TWO72 - 1); // base(hi) = 0 <= k
        while lo < hi {
            let mid = (lo + hi) / 2;
            t.calls += 1;
            let v = catch(|| fh::base_sampler(rs::u_to_bytes(mid))).unwrap_or(99) as i64;
            if v <= k {
                hi = mid;
            } else {
                lo = mid + 1;
            }
        }
        extracted.push(lo);
        t.cases += 1;
        if lo != rs::RCDT[k as usize] {
            t.viol(format!("base_sampler:threshold[{}]", k), format!("extracted threshold {} of base_sampler is {} but RCDT[{}] = {}", k, lo, k, rs::RCDT[k as usize]), json!({"kind":"base","u":lo.to_string()}));
        }
    }
    let mut part = Part::new("base_sampler_thresholds", "u in {RCDT[i]-1, RCDT[i], RCDT[i]+1 : i<18} and {0, 2^72-1}; the 18 thresholds of the real function extracted by binary search over u (72 calls each) must equal the specification's RCDT");
    part.exhaustive = true;
    part.set("extracted_thresholds", json!(extracted.iter().map(|x| x.to_string()).collect::<Vec<_>>()));
    t.into_part(ctx, part);

    // all u with at most two non-zero bytes (pins byte order)
    let t = (0..9usize)
        .into_par_iter()
        .map(|p| {
            let mut t = Tally::default();
            for a in 0..=255u128 {
                // single byte at position p
                if a > 0 {
                    check_base(&mut t, a << (8 * p));
                }
                for q in (p + 1)..9 {
                    if a == 0 {
                        continue;
                    }
                    for b in 1..=255u128 {
                        check_base(&mut t, (a << (8 * p)) | (b << (8 * q)));
                    }
                }
            }
            t
        })
        .reduce(Tally::default, reduce);
    let mut part = Part::new("base_sampler_two_bytes", "every 72-bit u with at most two non-zero bytes (2 343 196 values)");
    part.exhaustive = true;
    t.into_part(ctx, part);
}

fn ccs_values() -> Vec<f64> {
    let mut v = vec![1.0];
    for n in [512usize, 1024] {
        let smin = sigma_min(n);
        for k in 0..64 {
            let s = smin + (SIGMA_MAX - smin) * (k as f64) / 63.0;
            v.push(smin * (1.0 / s));
        }
    }
    v.push((1.43300980528773 - 0.001) / 1.43300980528773);
    v.push(0.5);
    v.push(0.0);
    v
}

fn step(x: f64, k: i32) -> f64 {
    // k-th neighbour of x in the f64 lattice
    let mut b = x.to_bits() as i64;
    b += k as i64;
    f64::from_bits(b as u64)
}

fn approx_exp_part(ctx: &mut Ctx, tier: Tier) {
    let ccs = ccs_values();
    let grid = if tier.thorough() { 16384 } else { 512 };
    let mut xs: Vec<f64> = (0..=grid).map(|k| rs::LN2 * (k as f64) / (grid as f64)).collect();
    for k in 1..=64 {
        xs.push(step(0.0, k));
        xs.push(step(rs::LN2, -k));
        xs.push(step(0.5, k));
    }
    xs.push(0.0);
    let t = xs
        .par_iter()
        .map(|&x| {
            let mut t = Tally::default();
            for &c in &ccs {
                t.cases += 1;
                t.calls += 1;
                let want = rs::approx_exp(x, c);
                match catch(|| fh::approx_exp(x, c)) {
                    Ok(got) if got == want => t.out(if c == 1.0 { "ccs=1" } else { "ccs<1" }),
                    Ok(got) => t.viol("approx_exp:mismatch".into(), format!("approx_exp({:e}, {}) = {} but Algorithm 13 gives {}", x, c, got, want), json!({"kind":"approx_exp","x":x.to_bits(),"ccs":c.to_bits()})),
                    Err(e) => t.viol("approx_exp:panic".into(), format!("approx_exp({:e}, {}) panicked: {}", x, c, e), json!({"kind":"approx_exp","x":x.to_bits(),"ccs":c.to_bits()})),
                }
            }
            t
        })
        .reduce(Tally::default, reduce);
    let mut part = Part::new("approx_exp_grid", &format!("x on a grid of {} points of [0, ln 2] plus the 64 f64-neighbours of 0, ln 2 and 0.5; ccs in {{1, sigma_min/sigma' for 64 sigma' per parameter set, keygen's ccs, 0.5, 0}}; bit-exact against Algorithm 13", grid + 1));
    part.exhaustive = true;
    t.into_part(ctx, part);
}

fn ber_patterns(z: u64) -> Vec<([u8; 7], &'static str)> {
    let top: [u8; 7] = [(z >> 56) as u8, (z >> 48) as u8, (z >> 40) as u8, (z >> 32) as u8, (z >> 24) as u8, (z >> 16) as u8, (z >> 8) as u8];
    let mut out = vec![(top, "tie7"), ([0u8; 7], "zeros"), ([0xffu8; 7], "ones")];
    for j in 0..7 {
        if top[j] > 0 {
            let mut b = top;
            b[j] -= 1;
            for k in (j + 1)..7 {
                b[k] = 0xff;
            }
            out.push((b, "below"));
        }
        if top[j] < 0xff {
            let mut b = top;
            b[j] += 1;
            for k in (j + 1)..7 {
                b[k] = 0;
            }
            out.push((b, "above"));
        }
    }
    out
}

fn check_ber(t: &mut Tally, x: f64, c: f64, bytes: [u8; 7], label: &str) {
    t.cases += 1;
    t.calls += 1;
    let want = rs::ber_exp7(x, c, &bytes);
    let case = || json!({"kind":"ber_exp","x":x.to_bits(),"ccs":c.to_bits(),"bytes":hex(&bytes)});
    match catch(|| fh::ber_exp(x, c, bytes)) {
        Ok(got) => match want {
            Some(w) if w == got => t.out(if got { "accept" } else { "reject" }),
            None => t.out("7-byte tie (either answer allowed)"),
            Some(w) => t.viol(format!("ber_exp:mismatch:{}", label), format!("ber_exp(x={}, ccs={}, bytes={}) = {} but Algorithm 14 gives {}", x, c, hex(&bytes), got, w), case()),
        },
        Err(e) => t.viol(format!("ber_exp:panic:{}", label), format!("ber_exp(x={}, ccs={}, bytes={}) panicked: {}", x, c, hex(&bytes), e), case()),
    }
}

fn ber_exp_part(ctx: &mut Ctx, tier: Tier) {
    let ccs: Vec<f64> = ccs_values().into_iter().filter(|&c| c > 0.0).collect();
    let per = if tier.thorough() { 32 } else { 6 };
    let mut xs = vec![];
    for s in 0..=86 {
        for k in 0..per {
            xs.push(rs::LN2 * (s as f64) + rs::LN2 * (k as f64) / (per as f64));
        }
        xs.push(step(rs::LN2 * (s as f64), 1));
        xs.push(step(rs::LN2 * (s as f64 + 1.0), -2));
    }
    xs.push(0.0);
    let t = xs
        .par_iter()
        .map(|&x| {
            let mut t = Tally::default();
            for &c in &ccs {
                let z = rs::ber_exp_threshold(x, c);
                for (b, label) in ber_patterns(z) {
                    check_ber(&mut t, x, c, b, label);
                }
            }
            t
        })
        .reduce(Tally::default, reduce);
    let mut part = Part::new("ber_exp_patterns", &format!("x over [0, 87 ln 2) ({} points per integer part s = 0..86, so the shift saturates, plus f64-neighbours of the breakpoints) x ccs values x byte patterns {{exact 7-byte tie, 00^7, FF^7, first difference at byte j = 0..6 by -1 / +1}} against Algorithm 14 restricted to 7 bytes", per));
    part.exhaustive = true;
    t.into_part(ctx, part);
}

// ------------------------------------------------------------------ (b) step conformance

#[derive(Clone, Copy)]
struct Ans {
    z0: usize,
    hi_edge: bool,
    b: u8,
    ber: u8, // 0 zeros, 1 below-margin, 2 tie7, 3 above-margin, 4 ones
}

fn answer_bytes(mu: f64, sigma: f64, smin: f64, a: Ans) -> [u8; 17] {
    // u at the chosen edge of the RCDT interval that yields z0
    let lo = if a.z0 == 18 { 0 } else { rs::RCDT[a.z0] };
    let hi = if a.z0 == 0 { TWO72 - 1 } else { rs::RCDT[a.z0 - 1] - 1 };
    let u = if a.hi_edge { hi } else { lo };
    let mut out = [0u8; 17];
    out[..9].copy_from_slice(&rs::u_to_bytes(u));
    out[9] = a.b;
    let r = mu - mu.floor();
    let x = rs::sampler_x(r, sigma, a.z0 as i64, (a.b & 1) as i64);
    let z = rs::ber_exp_threshold(x, smin * (1.0 / sigma));
    let z56 = z >> 8;
    let margin = 1u64 << 16;
    let w: u64 = match a.ber {
        0 => 0,
        1 => z56.saturating_sub(margin),
        2 => z56,
        3 => (z56 + margin).min((1u64 << 56) - 1),
        _ => (1u64 << 56) - 1,
    };
    for k in 0..7 {
        out[10 + k] = (w >> (8 * (6 - k))) as u8;
    }
    out
}

fn default_answer() -> [u8; 17] {
    // z0 = 0, b = 0, comparison bytes 0: accepted for every centre and width in range
    let mut out = [0xffu8; 17];
    out[9] = 0;
    for k in 10..17 {
        out[k] = 0;
    }
    out
}

fn menu(full: bool) -> Vec<Ans> {
    let mut m = vec![];
    let z0s: Vec<usize> = if full { (0..=18).collect() } else { vec![0, 1, 2, 9, 18] };
    for &z0 in &z0s {
        for hi_edge in [false, true] {
            for b in [0u8, 1, 0xfe, 0xff] {
                if !full && b > 1 {
                    continue;
                }
                for ber in 0..5u8 {
                    m.push(Ans { z0, hi_edge, b, ber });
                }
            }
        }
    }
    m
}

/// run the real sampler on a fixed list of answers (then default answers) and compare with the
/// reference model step by step
fn run_script(t: &mut Tally, mu: f64, sigma: f64, smin: f64, script: &[[u8; 17]]) -> Option<bool> {
    t.cases += 1;
    t.calls += 1;
    // reference prediction
    let mut expect: Vec<rs::Step> = vec![];
    let mut k = 0;
    loop {
        let a = if k < script.len() { script[k] } else { default_answer() };
        let st = rs::sampler_step(mu, sigma, smin, &a);
        let stop = !matches!(st, rs::Step::Reject);
        expect.push(st);
        k += 1;
        if stop || k > script.len() + 2 {
            break;
        }
    }
    let sc = script.to_vec();
    let mut rng = IterRng::new(move |i| if i < sc.len() { sc[i] } else { default_answer() }, script.len() + 3);
    let res = catch(|| fh::sampler_z(mu, sigma, smin, &mut rng));
    let case = || json!({"kind":"script","mu":mu.to_bits(),"sigma":sigma.to_bits(),"sigma_min":smin.to_bits(),"script":script.iter().map(|a| hex(a)).collect::<Vec<_>>()});
    let describe = || format!("mu={} sigma'={} answers={:?}", mu, sigma, script.iter().map(|a| hex(a)).collect::<Vec<_>>());
    let last = expect.last().unwrap().clone();
    match res {
        Err(e) => {
            t.viol(format!("sampler_z:panic:{}", e.split('@').next().unwrap_or("").trim()), format!("sampler_z panicked ({}) on {}", e, describe()), case());
            None
        }
        Ok(v) => {
            let iters = rng.iterations;
            let ok = match &last {
                rs::Step::Return(w) => iters == expect.len() && v as i64 == *w && rng.at_boundary(),
                rs::Step::Tie { would_return } => (iters == expect.len() && v as i64 == *would_return) || iters > expect.len(),
                rs::Step::Reject => false,
            };
            if !ok {
                t.viol(
                    format!("sampler_z:mismatch:first-iteration-answers={}", script.len()),
                    format!("sampler_z returned {} after {} iterations but the specification's SamplerZ gives {:?} after {} on {}", v, iters, last, expect.len(), describe()),
                    case(),
                );
            } else {
                t.out(&format!("returns after {} iteration(s)", iters));
            }
            Some(matches!(expect[0], rs::Step::Reject))
        }
    }
}

fn cells() -> Vec<(f64, f64, f64)> {
    let mut c = vec![];
    for mu in [-91.9f64, -0.5, 0.0, 0.25, 0.999, 7.93, 2047.5, -2048.0] {
        for (n, sig) in [(512usize, sigma_min(512)), (1024, sigma_min(1024)), (512, 1.5), (1024, 1.7), (512, SIGMA_MAX), (1024, SIGMA_MAX)] {
            c.push((mu, sig, sigma_min(n)));
        }
    }
    // key generation's parameters
    c.push((0.0, 1.43300980528773, 1.43300980528773 - 0.001));
    c
}

fn conformance_part(ctx: &mut Ctx, tier: Tier) {
    let m_full = menu(true);
    let m_small = menu(false);
    let cs = cells();
    let t = cs
        .par_iter()
        .map(|&(mu, sigma, smin)| {
            let mut t = Tally::default();
            // depth 1: every answer; depth 2: every rejecting first answer x every second answer
            for a1 in &m_full {
                let b1 = answer_bytes(mu, sigma, smin, *a1);
                let rejected = run_script(&mut t, mu, sigma, smin, &[b1]);
                if rejected == Some(true) {
                    for a2 in &m_full {
                        let b2 = answer_bytes(mu, sigma, smin, *a2);
                        run_script(&mut t, mu, sigma, smin, &[b1, b2]);
                    }
                }
            }
            t
        })
        .reduce(Tally::default, reduce);
    let mut part = Part::new(
        "sampler_z_sequences_depth2",
        &format!("sampler_z under a role-aware byte environment: every answer sequence of length 1 and every (rejecting first answer, second answer) pair over the per-iteration menu z0 in 0..=18 at both interval edges x sign byte in {{00,01,FE,FF}} x comparison bytes in {{00^7, threshold-2^16, exact tie, threshold+2^16, FF^7}} ({} answers), for {} (mu, sigma', sigma_min) cells; each execution compared with the specification's SamplerZ on the same bytes (value and number of iterations)", m_full.len(), cs.len()),
    );
    part.exhaustive = true;
    t.into_part(ctx, part);

    // centre ladder: the property says "every centre mu"; integer parts over six orders of magnitude and
    // fractional parts at the ends and middle of [0, 1), both signs, every answer of the menu once
    let mut ladder: Vec<(f64, f64, f64)> = vec![];
    for k in [0.0f64, 1.0, 2.0, 127.0, 128.0, 255.0, 256.0, 2047.0, 4095.0, 12288.0, 32000.0] {
        for frac in [0.0f64, f64::EPSILON, 0.25, 0.5, 0.75, 1.0 - f64::EPSILON] {
            for sgn in [1.0f64, -1.0] {
                for (n, sig) in [(512usize, sigma_min(512)), (512, 1.5), (1024, SIGMA_MAX)] {
                    ladder.push((sgn * (k + frac), sig, sigma_min(n)));
                }
            }
        }
    }
    let t = ladder
        .par_iter()
        .map(|&(mu, sigma, smin)| {
            let mut t = Tally::default();
            for a1 in &m_full {
                let b1 = answer_bytes(mu, sigma, smin, *a1);
                run_script(&mut t, mu, sigma, smin, &[b1]);
            }
            t
        })
        .reduce(Tally::default, reduce);
    let mut part = Part::new(
        "sampler_z_centre_ladder",
        &format!("every answer of the menu ({}) as the first iteration, for mu = +-(k + f), k in {{0,1,2,127,128,255,256,2047,4095,12288,32000}}, f in {{0, 2^-52, 1/4, 1/2, 3/4, 1-2^-52}} (incl. -0.0) x sigma' in {{sigma_min, 1.5, sigma_max}} ({} cells): value and iteration count against the specification's SamplerZ on the same bytes", m_full.len(), ladder.len()),
    );
    part.exhaustive = true;
    t.into_part(ctx, part);

    // call pairs on one thread: the second call's result must not depend on the parameters of the first (a memo of
    // width-dependent constants keyed by too little shows when two calls agree in sigma' but not in sigma_min, or in
    // the centre but not in the width)
    {
        let cs2 = cells();
        let probe: Vec<Ans> = vec![Ans { z0: 0, hi_edge: true, b: 1, ber: 1 }, Ans { z0: 1, hi_edge: false, b: 0, ber: 3 }, Ans { z0: 2, hi_edge: true, b: 1, ber: 1 }, Ans { z0: 0, hi_edge: false, b: 0, ber: 2 }];
        let pairs: Vec<(usize, usize)> = (0..cs2.len()).flat_map(|i| (0..cs2.len()).map(move |j| (i, j))).collect();
        let t = pairs
            .par_iter()
            .map(|&(i, j)| {
                let (c1, c2) = (cs2[i], cs2[j]);
                let pr = probe.clone();
                crate::sched::on_fresh_thread(move || {
                    let mut t = Tally::default();
                    for a in &pr {
                        let b1 = answer_bytes(c1.0, c1.1, c1.2, *a);
                        let mut dummy = Tally::default();
                        run_script(&mut dummy, c1.0, c1.1, c1.2, &[b1]);
                        let b2 = answer_bytes(c2.0, c2.1, c2.2, *a);
                        run_script(&mut t, c2.0, c2.1, c2.2, &[b2]);
                    }
                    t
                })
                .unwrap_or_default()
            })
            .reduce(Tally::default, reduce);
        let mut part = Part::new("sampler_z_call_pairs", &format!("every ordered pair of the {} (mu, sigma', sigma_min) cells on one fresh thread, four probing answers each (comparison bytes just below / exactly at / just above the threshold): the second call is compared with the specification's SamplerZ on its own parameters and bytes", cs2.len()));
        part.exhaustive = true;
        t.into_part(ctx, part);
    }

    // long rejection runs: k rejected iterations (k up to 64, thorough 256) followed by one accepted
    let kmax = if tier.thorough() { 256 } else { 64 };
    let rejecting: Vec<Ans> = vec![Ans { z0: 0, hi_edge: true, b: 0, ber: 4 }, Ans { z0: 3, hi_edge: false, b: 1, ber: 3 }, Ans { z0: 18, hi_edge: false, b: 0, ber: 4 }];
    let accepting = Ans { z0: 0, hi_edge: true, b: 1, ber: 0 };
    let t = cs
        .par_iter()
        .map(|&(mu, sigma, smin)| {
            let mut t = Tally::default();
            for (ri, r) in rejecting.iter().enumerate() {
                let rb = answer_bytes(mu, sigma, smin, *r);
                if !matches!(rs::sampler_step(mu, sigma, smin, &rb), rs::Step::Reject) {
                    continue;
                }
                let ab = answer_bytes(mu, sigma, smin, accepting);
                for k in 0..=kmax {
                    if k > 20 && (k % 8 != 0) && ri != 0 {
                        continue;
                    }
                    let mut script = vec![rb; k];
                    script.push(ab);
                    run_script(&mut t, mu, sigma, smin, &script);
                }
            }
            t
        })
        .reduce(Tally::default, reduce);
    let mut part = Part::new("sampler_z_long_rejection_runs", &format!("k rejected iterations (three kinds of rejecting answer) followed by one accepted answer, for every k in 0..={} (first kind) / 0..20 and every 8th (others), all cells: the sampler must consume exactly k+1 iterations and return the accepted value", kmax));
    part.exhaustive = true;
    t.into_part(ctx, part);

    if tier.thorough() {
        let t = cs
            .par_iter()
            .map(|&(mu, sigma, smin)| {
                let mut t = Tally::default();
                for a1 in &m_full {
                    let b1 = answer_bytes(mu, sigma, smin, *a1);
                    if !matches!(rs::sampler_step(mu, sigma, smin, &b1), rs::Step::Reject) {
                        continue;
                    }
                    for a2 in &m_small {
                        let b2 = answer_bytes(mu, sigma, smin, *a2);
                        if !matches!(rs::sampler_step(mu, sigma, smin, &b2), rs::Step::Reject) {
                            continue;
                        }
                        for a3 in &m_full {
                            let b3 = answer_bytes(mu, sigma, smin, *a3);
                            run_script(&mut t, mu, sigma, smin, &[b1, b2, b3]);
                        }
                    }
                }
                t
            })
            .reduce(Tally::default, reduce);
        let mut part = Part::new("sampler_z_sequences_depth3", "a rejecting answer from the full menu, a rejecting answer from the reduced menu (z0 in {0,1,2,9,18}), then every answer of the full menu, all cells");
        part.exhaustive = true;
        t.into_part(ctx, part);
    }
}

// ------------------------------------------------------------------ (c) exact law

/// 56-bit acceptance threshold of the real sampler_z for candidate (z0, b): the number of 7-byte
/// comparison strings W (as integers) for which the first iteration returns. Found by binary search.
fn extract_accept_threshold(mu: f64, sigma: f64, smin: f64, z0: usize, b: u8, calls: &mut u64) -> Result<u64, String> {
    let lo_u = if z0 == 18 { 0 } else { rs::RCDT[z0] };
    let accepts = |w: u64, calls: &mut u64| -> Result<bool, String> {
        let mut a = [0u8; 17];
        a[..9].copy_from_slice(&rs::u_to_bytes(lo_u));
        a[9] = b;
        for k in 0..7 {
            a[10 + k] = (w >> (8 * (6 - k))) as u8;
        }
        *calls += 1;
        let mut rng = IterRng::new(move |i| if i == 0 { a } else { default_answer() }, 3);
        catch(|| fh::sampler_z(mu, sigma, smin, &mut rng)).map(|_| rng.iterations == 1)
    };
    // monotone: accepts(w) for w < T, rejects for w >= T
    if !accepts(0, calls)? {
        return Ok(0);
    }
    let max = (1u64 << 56) - 1;
    if accepts(max, calls)? {
        return Ok(1u64 << 56);
    }
    let (mut lo, mut hi) = (0u64, max); // accepts(lo), !accepts(hi)
    while hi - lo > 1 {
        let mid = lo + (hi - lo) / 2;
        if accepts(mid, calls)? {
            lo = mid;
        } else {
            hi = mid;
        }
    }
    Ok(hi)
}

struct LawResult {
    tv: f64,
    max_rel: f64,
    calls: u64,
    support: usize,
}

fn law(r: f64, sigma: f64, smin: f64, pz0: &[f64]) -> Result<LawResult, String> {
    let mut calls = 0;
    let mut w: BTreeMap<i64, f64> = BTreeMap::new();
    for z0 in 0..=18usize {
        for b in [0u8, 1] {
            let t = extract_accept_threshold(r, sigma, smin, z0, b, &mut calls)?;
            let z = (b as i64) + (2 * (b as i64) - 1) * (z0 as i64);
            let p = pz0[z0] * 0.5 * (t as f64) / (2.0f64).powi(56);
            *w.entry(z).or_insert(0.0) += p;
        }
    }
    let total: f64 = w.values().sum();
    if !(total > 0.0) {
        return Err("sampler never accepts".into());
    }
    // ideal
    let mut ideal: BTreeMap<i64, f64> = BTreeMap::new();
    let mut itot = 0.0;
    for z in -80..=80i64 {
        let d = (z as f64) - r;
        let p = (-(d * d) / (2.0 * sigma * sigma)).exp();
        ideal.insert(z, p);
        itot += p;
    }
    let mut tv = 0.0;
    let mut max_rel: f64 = 0.0;
    for z in -80..=80i64 {
        let pi = ideal[&z] / itot;
        let pm = w.get(&z).copied().unwrap_or(0.0) / total;
        tv += (pi - pm).abs();
        if pi >= (2.0f64).powi(-30) {
            max_rel = max_rel.max(((pm - pi) / pi).abs());
        }
    }
    Ok(LawResult { tv: tv / 2.0, max_rel, calls, support: w.values().filter(|&&p| p > 0.0).count() })
}

fn law_part(ctx: &mut Ctx, tier: Tier) {
    // P(z0 = k) from the thresholds extracted from the real base_sampler
    let mut tau = vec![TWO72];
    for k in 0..18i64 {
        let (mut lo, mut hi) = (0u128, TWO72 - 1);
        while lo < hi {
            let mid = (lo + hi) / 2;
            let v = catch(|| fh::base_sampler(rs::u_to_bytes(mid))).unwrap_or(99) as i64;
            if v <= k {
                hi = mid;
            } else {
                lo = mid + 1;
            }
        }
        tau.push(lo);
    }
    tau.push(0);
    // z0 = k  <=>  tau[k+1] <= u < tau[k]   (tau[0] = 2^72, tau[19] = 0)
    let pz0: Vec<f64> = (0..=18).map(|k| (tau[k].saturating_sub(tau[k + 1])) as f64 / (TWO72 as f64)).collect();
    let g = if tier.thorough() { 32 } else { 12 };
    let mut cells = vec![];
    for n in [512usize, 1024] {
        let smin = sigma_min(n);
        for i in 0..g {
            for j in 0..g {
                let r = (i as f64) / (g as f64);
                let s = smin + (SIGMA_MAX - smin) * (j as f64) / ((g - 1) as f64);
                cells.push((r, s, smin));
            }
        }
    }
    let tv_limit = (2.0f64).powi(-40);
    let rel_limit = (2.0f64).powi(-30);
    let res: Vec<(f64, f64, f64, Result<LawResult, String>)> = cells.par_iter().map(|&(r, s, smin)| (r, s, smin, law(r, s, smin, &pz0))).collect();
    let mut part = Part::new(
        "exact_output_law",
        &format!("for (r, sigma') on a {}x{} grid (r = mu - floor(mu) in [0,1), sigma' in [sigma_min, 1.8205] endpoints included) x both sigma_min: the exact output law of the real sampler_z is assembled from P(z0) (thresholds of the real base_sampler, binary search) and the 56-bit acceptance thresholds of the real first iteration (binary search over the comparison bytes, 38 candidates x ~56 executions), and compared with the ideal D_(Z,r,sigma'): total variation <= 2^-40, relative error <= 2^-30 wherever the ideal mass is >= 2^-30", g, g),
    );
    let mut worst_tv: f64 = 0.0;
    let mut worst_rel: f64 = 0.0;
    for (r, s, smin, lr) in res {
        part.states += 1;
        match lr {
            Ok(l) => {
                part.transitions += l.calls;
                part.validated += 1;
                worst_tv = worst_tv.max(l.tv);
                worst_rel = worst_rel.max(l.max_rel);
                part.outcome(format!("support={}", l.support));
                if !(l.tv <= tv_limit) || !(l.max_rel <= rel_limit) {
                    ctx.violation(
                        format!("law:sigma_min={}", smin),
                        format!("output law of sampler_z at r={}, sigma'={}, sigma_min={} deviates from the discrete Gaussian: total variation 2^{:.1}, max relative error 2^{:.1}", r, s, smin, l.tv.log2(), l.max_rel.log2()),
                        json!({"kind":"law","r":r.to_bits(),"sigma":s.to_bits(),"sigma_min":smin.to_bits()}),
                    );
                }
            }
            Err(e) => {
                ctx.violation(format!("law:error:{}", e.split('@').next().unwrap_or("").trim()), format!("sampler_z failed during threshold extraction at r={}, sigma'={}: {}", r, s, e), json!({"kind":"law","r":r.to_bits(),"sigma":s.to_bits(),"sigma_min":smin.to_bits()}));
            }
        }
    }
    part.set("worst_total_variation_log2", json!(worst_tv.log2()));
    part.set("worst_relative_error_log2", json!(worst_rel.log2()));
    part.exhaustive = true;
    ctx.add_part(part);
}

pub fn run(tier: Tier) {
    let mut ctx = Ctx::new("C09", tier);
    base_part(&mut ctx);
    approx_exp_part(&mut ctx, tier);
    ber_exp_part(&mut ctx, tier);
    conformance_part(&mut ctx, tier);
    law_part(&mut ctx, tier);
    ctx.sample(json!({"mu":0.25,"sigma'":1.5,"answer":hex(&answer_bytes(0.25, 1.5, sigma_min(512), Ans{z0:1,hi_edge:false,b:1,ber:1})),"meaning":"9 bytes u = RCDT[1] (z0 = 1), sign byte 01, comparison bytes = threshold - 2^16","reference":format!("{:?}", rs::sampler_step(0.25, 1.5, sigma_min(512), &answer_bytes(0.25, 1.5, sigma_min(512), Ans{z0:1,hi_edge:false,b:1,ber:1})))}));
    ctx.assume("the floating-point evaluation order of x = (z-r)^2/(2 sigma'^2) - z0^2/(2 sigma_max^2) follows the reference C code; comparison bytes are kept 2^16 (in 56-bit units) away from the threshold so a re-association of that expression is not reported");
    ctx.assume("BerExp is compared on the 7 random bytes the interface supplies; on an exact 7-byte tie either answer is accepted (the specification would read an eighth byte; deviation <= 2^-56) but a panic is a violation");
    ctx.assume("'returns for every byte stream' is read as 'returns whenever the specification's sampler returns on the same stream'");
    ctx.assume("(mu, sigma') off the grids: dependence on mu is through r = mu - floor(mu), on sigma' through two smooth scalars");
    if ctx.violations_so_far() == 0 && false {
        machinery_error("unreachable");
    }
    ctx.finish();
}

pub fn replay(case: &Value) -> Result<Option<String>, String> {
    let kind = case.get("kind").and_then(|k| k.as_str()).ok_or("no kind")?;
    let f = |k: &str| case.get(k).and_then(|x| x.as_u64()).map(f64::from_bits).ok_or(format!("missing {}", k));
    let mut t = Tally::default();
    match kind {
        "base" => {
            let u: u128 = case.get("u").and_then(|x| x.as_str()).ok_or("u")?.parse().map_err(|_| "u")?;
            check_base(&mut t, u);
        }
        "approx_exp" => {
            let (x, c) = (f("x")?, f("ccs")?);
            let want = rs::approx_exp(x, c);
            return Ok(match catch(|| fh::approx_exp(x, c)) {
                Ok(g) if g == want => None,
                other => Some(format!("approx_exp({:e},{}) = {:?}, Algorithm 13 gives {}", x, c, other, want)),
            });
        }
        "ber_exp" => {
            let b = crate::ctx::unhex(case.get("bytes").and_then(|x| x.as_str()).ok_or("bytes")?);
            let mut b7 = [0u8; 7];
            b7.copy_from_slice(&b);
            check_ber(&mut t, f("x")?, f("ccs")?, b7, "replay");
        }
        "script" => {
            let script: Vec<[u8; 17]> = case
                .get("script")
                .and_then(|x| x.as_array())
                .ok_or("script")?
                .iter()
                .map(|s| {
                    let v = crate::ctx::unhex(s.as_str().unwrap_or(""));
                    let mut a = [0u8; 17];
                    a.copy_from_slice(&v);
                    a
                })
                .collect();
            run_script(&mut t, f("mu")?, f("sigma")?, f("sigma_min")?, &script);
        }
        "law" => {
            return Err("law cells are re-run by the check itself (./vf check C09)".into());
        }
        _ => return Err(format!("unknown kind {}", kind)),
    }
    Ok(t.found.into_iter().next().map(|(_, f)| f.what))
}

//! C04 - every generated key pair is a valid NTRU trapdoor with in-range tree leaves.
//! E1 over a seed window x both variants; exact integer oracles plus the dense Gram-Schmidt
//! reference for the leaves.

use super::diag::leaves_of;
use super::{found, Found};
use crate::api::{Variant, V1024, V512};
use crate::ctx::{catch, Ctx, Part, Tier};
use crate::refmodel::{gso, keycodec, poly, sigma, sigma_min, SIGMA_MAX, Q};
use crate::util::{i16s_to_i64, seed_bytes, seed_window};
use rayon::prelude::*;
use serde_json::{json, Value};
use std::collections::BTreeMap;

#[derive(Default)]
struct Tally {
    cases: u64,
    calls: u64,
    gso_keys: u64,
    outcomes: BTreeMap<String, u64>,
    found: BTreeMap<String, Found>,
    nviol: u64,
    min_leaf: f64,
    max_leaf: f64,
    worst_leaf_dev: f64,
}

fn reduce(mut a: Tally, b: Tally) -> Tally {
    a.cases += b.cases;
    a.calls += b.calls;
    a.gso_keys += b.gso_keys;
    a.nviol += b.nviol;
    a.min_leaf = if a.min_leaf == 0.0 { b.min_leaf } else if b.min_leaf == 0.0 { a.min_leaf } else { a.min_leaf.min(b.min_leaf) };
    a.max_leaf = a.max_leaf.max(b.max_leaf);
    a.worst_leaf_dev = a.worst_leaf_dev.max(b.worst_leaf_dev);
    for (k, v) in b.outcomes {
        *a.outcomes.entry(k).or_insert(0) += v;
    }
    for (k, v) in b.found {
        a.found.entry(k).or_insert(v);
    }
    a
}

pub fn key_case<V: Variant>(t: &mut Tally, seed: u64, with_gso: bool) {
    let n = V::N;
    t.cases += 1;
    t.calls += 1;
    let case = || json!({"kind":"key","variant":n,"seed":seed,"gso":with_gso});
    let mut viol = |t: &mut Tally, class: &str, what: String| {
        t.nviol += 1;
        let key = format!("{}:n={},seed={}", class, n, seed);
        t.found.entry(key.clone()).or_insert_with(|| found(key, what, case()));
    };
    let (sk, pk) = match catch(|| V::keygen(seed_bytes(seed))) {
        Ok(x) => x,
        Err(e) => {
            viol(t, "keygen-panic", format!("{}::keygen(seed {}) panicked: {}", V::name(), seed, e));
            return;
        }
    };
    let b0 = V::sk_basis(&sk);
    let g = i16s_to_i64(&b0[0]);
    let f: Vec<i64> = b0[1].iter().map(|&x| -(x as i64)).collect();
    let cg = i16s_to_i64(&b0[2]);
    let cf: Vec<i64> = b0[3].iter().map(|&x| -(x as i64)).collect();
    let mut ok = true;
    // NTRU equation over Z
    if !gso::ntru_holds(&f, &g, &cf, &cg) {
        ok = false;
        let l = gso::ntru_lhs(&f, &g, &cf, &cg);
        viol(t, "ntru-equation", format!("{}::keygen(seed LE64({})): f*G - g*F != q over Z[X]/(X^n+1) (constant term {}, {} non-zero higher terms)", V::name(), seed, l[0], l[1..].iter().filter(|&&x| x != 0).count()));
    }
    // f invertible mod q
    let roots = poly::roots(n);
    let ev = poly::eval_at_roots(&f, &roots);
    if ev.iter().any(|&x| x == 0) {
        ok = false;
        viol(t, "f-not-invertible", format!("{}::keygen(seed LE64({})): f vanishes at a root of X^n+1 modulo q (not invertible)", V::name(), seed));
    }
    // h f = g mod q with h from the public-key bytes
    let pkb = V::pk_to_bytes(&pk);
    match keycodec::pk_decode(&pkb, n) {
        Some(h) => {
            let hf = poly::mul_q(&f, &h);
            if (0..n).any(|k| hf[k] != g[k].rem_euclid(Q)) {
                ok = false;
                viol(t, "public-key", format!("{}::keygen(seed LE64({})): h*f != g modulo q for the encoded public key", V::name(), seed));
            }
        }
        None => {
            ok = false;
            viol(t, "public-key-encoding", format!("{}::keygen(seed LE64({})): the public key bytes are not a canonical encoding", V::name(), seed));
        }
    }
    // the encoded secret polynomials are the basis
    let skb = V::sk_to_bytes(&sk);
    match keycodec::sk_decode(&skb, n) {
        Some((f2, g2, cf2)) => {
            if f2 != f || g2 != g || cf2 != cf {
                ok = false;
                viol(t, "secret-key-encoding", format!("{}::keygen(seed LE64({})): the encoded f, g, F differ from the basis the key signs with", V::name(), seed));
            }
        }
        None => {
            ok = false;
            viol(t, "secret-key-encoding", format!("{}::keygen(seed LE64({})): the secret key bytes do not decode in the reference codec", V::name(), seed));
        }
    }
    // leaves
    let leaves = leaves_of(&V::sk_tree(&sk));
    let smin = sigma_min(n);
    if leaves.len() != n {
        ok = false;
        viol(t, "tree-shape", format!("{}::keygen(seed {}): the signing tree has {} leaves, expected {}", V::name(), seed, leaves.len(), n));
    }
    let lo = leaves.iter().cloned().fold(f64::INFINITY, f64::min);
    let hi = leaves.iter().cloned().fold(f64::NEG_INFINITY, f64::max);
    t.min_leaf = if t.min_leaf == 0.0 { lo } else { t.min_leaf.min(lo) };
    t.max_leaf = t.max_leaf.max(hi);
    if !(lo >= smin) || !(hi <= SIGMA_MAX) || leaves.iter().any(|x| !x.is_finite()) {
        ok = false;
        viol(t, "leaf-out-of-range", format!("{}::keygen(seed LE64({})): leaf standard deviations span [{}, {}], allowed [{}, {}]", V::name(), seed, lo, hi, smin, SIGMA_MAX));
    }
    if with_gso && leaves.len() == n {
        t.gso_keys += 1;
        let rows = gso::tower_rows(&[g.clone(), b0[1].iter().map(|&x| x as i64).collect(), cg.clone(), b0[3].iter().map(|&x| x as i64).collect()]);
        let gs = gso::gram_schmidt_par(&rows);
        let sg = sigma(n);
        let mut worst: f64 = 0.0;
        for (j, &l) in leaves.iter().enumerate() {
            for r in [2 * j, 2 * j + 1] {
                let want = sg / gs.d[r].sqrt();
                worst = worst.max(((l - want) / want).abs());
            }
        }
        t.worst_leaf_dev = t.worst_leaf_dev.max(worst);
        if !(worst <= 1e-9) {
            ok = false;
            viol(t, "leaves-vs-gram-schmidt", format!("{}::keygen(seed LE64({})): leaves differ from sigma / ||b~_k|| of the dense Gram-Schmidt orthogonalisation (worst relative deviation {:e})", V::name(), seed, worst));
        }
        let gsmax = gs.d.iter().cloned().fold(0.0, f64::max).sqrt();
        if !(gsmax <= 1.17 * (Q as f64).sqrt() * (1.0 + 1e-9)) {
            ok = false;
            viol(t, "gram-schmidt-norm", format!("{}::keygen(seed LE64({})): Gram-Schmidt norm {} exceeds 1.17 sqrt(q) = {}", V::name(), seed, gsmax, 1.17 * (Q as f64).sqrt()));
        }
    }
    if ok {
        *t.outcomes.entry(format!("n={} valid trapdoor{}", n, if with_gso { " (+dense GSO)" } else { "" })).or_insert(0) += 1;
    }
}

fn one_variant<V: Variant>(ctx: &mut Ctx, tier: Tier) {
    let n = V::N;
    let mut seeds = seed_window(n, tier.thorough(), ctx.seed);
    // the cheap oracles run on a wider window than the serialisation check uses
    let extra: u64 = match (n, tier.thorough()) {
        (512, false) => 24,
        (512, true) => 0,
        (_, false) => 6,
        (_, true) => 0,
    };
    let base = seeds.iter().filter(|&&s| s < 100_000).count() as u64;
    for k in 0..extra {
        seeds.push(ctx.seed.wrapping_mul(4096) + base + 100 + k);
    }
    seeds.extend(crate::util::rejection_seeds(n));
    // seeds on which key generation must reject its first candidate because f is not invertible mod q
    let steer = crate::util::seeds_with_noninvertible_first_f(n, ctx.seed.wrapping_mul(4096), 400, if tier.thorough() { 8 } else { 3 });
    let nsteer = steer.len();
    seeds.extend(steer);
    // seeds whose first candidate f vanishes at one particular transform slot (first, second, middle, last):
    // an invertibility test that skips a slot accepts exactly these
    let slots = crate::util::slot_boundary_seeds(n);
    let nslot = slots.len();
    for (s, _) in &slots {
        seeds.push(*s);
    }
    // seeds on which an invertible candidate misses the Gram-Schmidt bound by less than 1 (in 16822.41): a norm
    // test that is rounded or compared slightly too leniently accepts exactly these
    let near: Vec<u64> = crate::util::gamma_near_miss_seeds(n).into_iter().take(if tier.thorough() { 6 } else if n == 512 { 3 } else { 2 }).collect();
    let bound = 1.3689 * Q as f64;
    let confirmed = near.par_iter().filter(|&&s| crate::util::candidate_walk(n, s, 64).iter().any(|(inv, g)| *inv && *g > bound && *g <= bound + 1.0)).count();
    seeds.extend(near.iter().cloned());
    seeds.sort();
    seeds.dedup();
    let gso_every = match (n, tier.thorough()) {
        (512, false) => 12,
        (512, true) => 8,
        (_, false) => 8,
        (_, true) => 6,
    };
    let jobs: Vec<(u64, bool)> = seeds.iter().enumerate().map(|(i, &s)| (s, i % gso_every == 0)).collect();
    let t = jobs
        .par_iter()
        .map(|&(s, g)| {
            let mut t = Tally::default();
            key_case::<V>(&mut t, s, g);
            t
        })
        .reduce(Tally::default, reduce);
    let mut part = Part::new(
        &format!("seed_window_{}", n),
        &format!("{} seeds LE64(i)||0^24 (window, the seeds found to exercise key generation's rejection branches, and seeds that left the encodable range before the repair): f*G-g*F = q over Z (i128 schoolbook), f invertible mod q (evaluation at all n roots), h*f = g mod q for the encoded h, encoded f,g,F equal the signing basis, all n leaves in [sigma_min, 1.8205]; on every {}th key additionally leaves = sigma/||b~_k|| from a dense 2n x 2n Gram-Schmidt in tower order and max ||b~_k|| <= 1.17 sqrt(q)", seeds.len(), gso_every),
    );
    part.states = t.cases;
    part.transitions = t.calls;
    part.validated = t.cases;
    part.exhaustive = true;
    part.set("seeds", json!(seeds));
    part.set("keys_with_dense_gso", json!(t.gso_keys));
    part.set("seeds_whose_first_f_is_not_invertible", json!(nsteer));
    part.set("seeds_whose_first_f_vanishes_at_slot_0_1_mid_last", json!(nslot));
    part.set("seeds_with_a_candidate_within_1_above_the_gram_schmidt_bound", json!({"seeds": near, "confirmed_by_the_reference_walk": confirmed}));
    part.set("leaf_range_observed", json!([t.min_leaf, t.max_leaf]));
    part.set("worst_leaf_vs_gso_relative_deviation", json!(t.worst_leaf_dev));
    for (o, c) in &t.outcomes {
        part.outcome(format!("{} x{}", o, c));
    }
    for (_, f) in t.found {
        ctx.violation(f.key, f.what, f.case);
    }
    ctx.add_part(part);
}

/// the quantity key generation compares with 1.17^2 q, as a component: the library's value against a naive-DFT
/// reference on the candidates key generation actually draws (first candidate of each seed of a window)
fn norm_component(ctx: &mut Ctx, tier: Tier) {
    let mut part = Part::new("gram_schmidt_norm_component", "max(||(g,-f)||^2, ||(q f*/(ff*+gg*), q g*/(ff*+gg*))||^2) as key generation computes it (hook) against a naive-DFT reference, on the first (f,g) candidate of every seed of a window (64 seeds per variant quick, 512 thorough) and on 4 structured pairs per size n = 8..1024; relative tolerance 1e-9");
    let mut worst: f64 = 0.0;
    for n in [512usize, 1024] {
        let count: u64 = if tier.thorough() { 512 } else { 64 };
        let res: Vec<(u64, f64, f64)> = (0..count)
            .into_par_iter()
            .map(|s| {
                let s = ctx_seed_offset(s);
                let (f, g) = crate::util::first_candidate(n, s);
                let (a, b) = crate::util::gamma_parts(&f, &g);
                let fi: Vec<i16> = f.iter().map(|&x| x as i16).collect();
                let gi: Vec<i16> = g.iter().map(|&x| x as i16).collect();
                let got = catch(|| falcon_rust::verif_hooks::gram_schmidt_norm_squared(&fi, &gi)).unwrap_or(f64::NAN);
                (s, a.max(b), got)
            })
            .collect();
        for (s, want, got) in res {
            part.states += 1;
            part.transitions += 1;
            part.validated += 1;
            let rel = ((got - want) / want).abs();
            worst = worst.max(if rel.is_finite() { rel } else { 1.0 });
            if !(rel <= 1e-9) {
                ctx.violation(format!("gram-schmidt-norm-component:n={}", n), format!("n={}: key generation's Gram-Schmidt quantity for the first candidate of seed LE64({}) is {} but the definition gives {} (relative difference {:e}): the acceptance test 'gamma <= 1.17^2 q' is applied to a wrong number", n, s, got, want, rel), json!({"kind":"norm-component","variant":n,"seed":s}));
            }
        }
    }
    for n in crate::util::sizes(8) {
        for t in 0..4i64 {
            let f: Vec<i64> = (0..n as i64).map(|i| ((i * 5 + 3 * t + 1) % 9) - 4 + if i == 0 { 9 + t } else { 0 }).collect();
            let g: Vec<i64> = (0..n as i64).map(|i| ((i * 7 + t + 2) % 7) - 3).collect();
            let (a, b) = crate::util::gamma_parts(&f, &g);
            let fi: Vec<i16> = f.iter().map(|&x| x as i16).collect();
            let gi: Vec<i16> = g.iter().map(|&x| x as i16).collect();
            let got = catch(|| falcon_rust::verif_hooks::gram_schmidt_norm_squared(&fi, &gi)).unwrap_or(f64::NAN);
            part.states += 1;
            part.transitions += 1;
            part.validated += 1;
            let want = a.max(b);
            let rel = ((got - want) / want).abs();
            worst = worst.max(if rel.is_finite() { rel } else { 1.0 });
            if !(rel <= 1e-9) {
                ctx.violation(format!("gram-schmidt-norm-component:n={}", n), format!("n={}: the Gram-Schmidt quantity of a structured pair is {} but the definition gives {}", n, got, want), json!({"kind":"norm-component","variant":n,"seed":t}));
            }
        }
    }
    part.set("worst_relative_difference", json!(worst));
    part.outcome("equal to the definition".to_string());
    part.exhaustive = true;
    ctx.add_part(part);
}

fn ctx_seed_offset(s: u64) -> u64 {
    std::env::var("VERIF_SEED").ok().and_then(|v| v.parse::<u64>().ok()).unwrap_or(0).wrapping_mul(4096) + 300 + s
}

pub fn run(tier: Tier) {
    let mut ctx = Ctx::new("C04", tier);
    norm_component(&mut ctx, tier);
    one_variant::<V512>(&mut ctx, tier);
    one_variant::<V1024>(&mut ctx, tier);
    // leaves and key bytes must not depend on what ran before in the process (e.g. the other variant)
    let smin = [sigma_min(512), sigma_min(1024)];
    crate::history::differential(&mut ctx, "history_two_keys_keygen", &["K512", "k512", "K1024", "k1024"], 2, &|_op, digest| { let _ = digest; None });
    crate::history::differential(&mut ctx, "history_differential_keys_and_trees", &["K512", "K1024", "D512", "D1024"], 2, &|op, digest| {
        let n: usize = op[1..].parse().unwrap_or(512);
        let lo: f64 = digest.split("min=").nth(1).and_then(|s| s.split(' ').next()).and_then(|s| s.parse().ok()).unwrap_or(f64::NAN);
        let hi: f64 = digest.split("max=").nth(1).and_then(|s| s.split(' ').next()).and_then(|s| s.parse().ok()).unwrap_or(f64::NAN);
        let sm = if n == 512 { smin[0] } else { smin[1] };
        if !(lo >= sm && hi <= SIGMA_MAX) {
            Some(format!("tree leaves span [{}, {}], allowed [{}, {}]", lo, hi, sm, SIGMA_MAX))
        } else {
            None
        }
    });
    crate::e5::run_part(&mut ctx, "keygen2");
    ctx.sample(json!({"variant":512,"seed":"LE64(0)||0^24","checks":["f*G-g*F=q","f invertible","h*f=g","leaves in range","leaves = sigma/GSO"]}));
    ctx.assume("seeds outside the enumerated window are not covered; ntru_gen is a rejection loop whose acceptance tests are the property's preconditions, the window contains seeds on which each rejection branch is taken");
    ctx.assume("dense Gram-Schmidt in f64 (modified Gram-Schmidt); tolerance 1e-9 relative, measured agreement ~1e-14");
    ctx.finish();
}

pub fn replay(case: &Value) -> Result<Option<String>, String> {
    if case.get("kind").and_then(|k| k.as_str()) == Some("history") {
        return crate::history::replay(case);
    }
    if case.get("kind").and_then(|k| k.as_str()).map(|k| k == "e5" || k == "e5-setup").unwrap_or(false) {
        return crate::e5::replay(case);
    }
    if case.get("kind").and_then(|k| k.as_str()) == Some("norm-component") {
        return Err("re-run ./vf check C04 (the component family is enumerated deterministically)".into());
    }
    let variant = case.get("variant").and_then(|x| x.as_u64()).ok_or("variant")?;
    let seed = case.get("seed").and_then(|x| x.as_u64()).ok_or("seed")?;
    let g = case.get("gso").and_then(|x| x.as_bool()).unwrap_or(true);
    let mut t = Tally::default();
    if variant == 512 {
        key_case::<V512>(&mut t, seed, g)
    } else {
        key_case::<V1024>(&mut t, seed, g)
    }
    Ok(t.found.into_iter().next().map(|(_, f)| f.what))
}

//! C11 - NTT multiplication in Z_q[X]/(X^n+1) is exact. Complete by enumeration of the tables and
//! of a basis (E1 + E2): the transforms are data-independent circuits of Z_q gates (gates decided
//! exhaustively by C12), hence linear; the pointwise product is bilinear.

use super::{found, Found};
use crate::ctx::{Ctx, Part, Tier};
use crate::refmodel::{poly, zq, Q};
use falcon_rust::verif_hooks as fh;
use rayon::prelude::*;
use serde_json::{json, Value};

/// the root of X^n+1 evaluated in each output slot, read off ntt(X) on a FRESH thread (so that nothing the
/// library may remember from transforms of other lengths on this thread can colour the reference)
pub(crate) fn slot_roots(n: usize) -> Vec<i64> {
    let x = unit(n, 1 % n, 1);
    crate::sched::on_fresh_thread(move || fh::felt_fft(&x)).unwrap_or_default().iter().map(|&v| v as i64).collect()
}

fn unit(n: usize, i: usize, a: u32) -> Vec<u32> {
    let mut v = vec![0u32; n];
    v[i] = a;
    v
}

fn dense(n: usize, t: usize) -> Vec<u32> {
    // structured dense vectors (deterministic, no sampling): polynomial index patterns mod q
    (0..n)
        .map(|k| {
            let k = k as u64;
            let t = t as u64;
            match t % 4 {
                0 => ((k * k * (t + 1) + 3 * k + t) % Q as u64) as u32,
                1 => ((12288 - (k * (t + 7)) % 12289) % 12289) as u32,
                2 => if (k + t) % 3 == 0 { 12288 } else { 6144 + ((k * t) % 5) as u32 },
                _ => (((k + 1) * (k + t) * 4093) % Q as u64) as u32,
            }
        })
        .collect()
}

/// checks on the three tables; returns (equalities checked, violations)
fn check_tables() -> (u64, Vec<Found>) {
    let (fwd, inv, ninv) = fh::felt_tables();
    let mut out = vec![];
    let mut eqs = 0u64;
    if fwd.len() != 1024 || inv.len() != 1024 || ninv.len() != 11 {
        out.push(found("tables:shape", "table sizes are not 1024/1024/11", json!({"kind":"tables"})));
        return (eqs, out);
    }
    let psi = fwd[512] as i64;
    eqs += 2;
    if zq::pow(psi, 1024) != Q - 1 {
        out.push(found("tables:psi", format!("table[512] = {} is not a primitive 2048-th root of unity (psi^1024 != -1)", psi), json!({"kind":"tables"})));
    }
    let psi_inv = zq::pow(psi, 2047);
    if zq::mul(psi, psi_inv) != 1 {
        out.push(found("tables:psiinv", "psi^2047 * psi != 1", json!({"kind":"tables"})));
    }
    for i in 0..1024usize {
        let e = poly::brv(i, 1024) as u64;
        eqs += 2;
        if fwd[i] as i64 != zq::pow(psi, e) {
            out.push(found(format!("tables:fwd[{}]", i), format!("FELT_BITREVERSED_POWERS_1024[{}] = {} but psi^brv({}) = {}", i, fwd[i], i, zq::pow(psi, e)), json!({"kind":"tables"})));
        }
        if inv[i] as i64 != zq::pow(psi_inv, e) {
            out.push(found(format!("tables:inv[{}]", i), format!("FELT_BITREVERSED_POWERS_INVERSE_1024[{}] = {} but psi^-brv({}) = {}", i, inv[i], i, zq::pow(psi_inv, e)), json!({"kind":"tables"})));
        }
    }
    for (k, &ni) in ninv.iter().enumerate() {
        eqs += 1;
        let n = 1i64 << k;
        if ni as i64 >= Q || zq::mul(ni as i64, n) != 1 {
            out.push(found(format!("tables:ninv[{}]", n), format!("FELT_NINV_{} = {} but {} * it != 1 mod q", n, ni, n), json!({"kind":"tables"})));
        }
    }
    (eqs, out)
}

struct SizeResult {
    eqs_basis: u64,
    pairs: u64,
    lin: u64,
    densep: u64,
    found: Vec<Found>,
}

fn check_size(n: usize, all_pairs: bool, lin_all: bool) -> SizeResult {
    let mut r = SizeResult { eqs_basis: 0, pairs: 0, lin: 0, densep: 0, found: vec![] };
    let push = |r: &mut SizeResult, f: Found| {
        if r.found.len() < 6 {
            r.found.push(f);
        }
    };
    // transforms of the basis
    let t: Vec<Vec<u32>> = (0..n).map(|i| fh::felt_fft(&unit(n, i, 1))).collect();
    // (b) ntt(e_0) = all ones; omega_k := ntt(e_1)[k] are n distinct roots of X^n+1; ntt(e_i)[k] = omega_k^i
    let omega: Vec<i64> = if n > 1 { t[1].iter().map(|&x| x as i64).collect() } else { vec![0] };
    if n > 1 {
        let mut seen = std::collections::BTreeSet::new();
        for k in 0..n {
            r.eqs_basis += 1;
            if omega[k] >= Q || zq::pow(omega[k], n as u64) != Q - 1 || !seen.insert(omega[k]) {
                push(&mut r, found(format!("ntt:n={}:roots", n), format!("n={}: ntt(X)[{}] = {} is not a fresh root of X^n+1", n, k, omega[k]), json!({"kind":"basis","n":n,"i":1})));
            }
        }
    }
    for i in 0..n {
        for k in 0..n {
            r.eqs_basis += 1;
            let want = if n > 1 { zq::pow(omega[k], i as u64) } else { 1 };
            if t[i][k] as i64 != want {
                push(&mut r, found(format!("ntt:n={}:basis", n), format!("n={}: ntt(X^{})[{}] = {} expected omega_k^i = {}", n, i, k, t[i][k], want), json!({"kind":"basis","n":n,"i":i})));
            }
        }
        // (c) inverse
        r.eqs_basis += 1;
        let back = fh::felt_ifft(&t[i]);
        if back != unit(n, i, 1) {
            push(&mut r, found(format!("ntt:n={}:roundtrip", n), format!("n={}: intt(ntt(X^{})) != X^{}", n, i, i), json!({"kind":"basis","n":n,"i":i})));
        }
    }
    // (d) pairs
    let js: Vec<usize> = if all_pairs {
        (0..n).collect()
    } else {
        let mut v = vec![0, 1 % n, n / 2, n - 1];
        v.sort();
        v.dedup();
        v
    };
    for i in 0..n {
        for &j in &js {
            r.pairs += 1;
            let prod = fh::felt_ifft(&fh::felt_hadamard_mul(&t[i], &t[j]));
            let k = i + j;
            let want = if k < n { unit(n, k, 1) } else { unit(n, k - n, (Q - 1) as u32) };
            if prod != want {
                push(&mut r, found(format!("ntt:n={}:pair", n), format!("n={}: intt(ntt(X^{}) .* ntt(X^{})) is not the negacyclic product", n, i, j), json!({"kind":"pair","n":n,"i":i,"j":j})));
            }
        }
    }
    // (e) premise of the basis argument: linearity on real data
    if n >= 2 && (n <= 64 || lin_all) && n <= 256 {
        let coeffs = [1u32, 6144, 6145, 12288];
        for i in 0..n {
            for j in (i + 1)..n {
                for &a in &coeffs {
                    for &b in &coeffs {
                        r.lin += 1;
                        let mut v = vec![0u32; n];
                        v[i] = a;
                        v[j] = b;
                        let got = fh::felt_fft(&v);
                        let ok = (0..n).all(|k| {
                            got[k] as i64 == zq::add(zq::mul(a as i64, t[i][k] as i64), zq::mul(b as i64, t[j][k] as i64))
                        });
                        if !ok {
                            push(&mut r, found(format!("ntt:n={}:linearity", n), format!("n={}: ntt({}X^{} + {}X^{}) is not the linear combination of the basis transforms", n, a, i, b, j), json!({"kind":"lin","n":n,"i":i,"j":j,"a":a,"b":b})));
                        }
                    }
                }
            }
        }
    }
    // dense structured vectors against the schoolbook product
    let nd = 16;
    for s in 0..nd {
        let a = dense(n, 2 * s);
        let b = dense(n, 2 * s + 1);
        r.densep += 1;
        if let Some(w) = check_dense(n, &a, &b) {
            push(&mut r, found(format!("ntt:n={}:dense", n), w, json!({"kind":"dense","n":n,"s":s})));
        }
    }
    r
}

fn check_dense(n: usize, a: &[u32], b: &[u32]) -> Option<String> {
    let fa = fh::felt_fft(a);
    let fb = fh::felt_fft(b);
    if fh::felt_ifft(&fa) != a {
        return Some(format!("n={}: intt(ntt(a)) != a for a dense vector", n));
    }
    let got = fh::felt_ifft(&fh::felt_hadamard_mul(&fa, &fb));
    let ai: Vec<i64> = a.iter().map(|&x| x as i64).collect();
    let bi: Vec<i64> = b.iter().map(|&x| x as i64).collect();
    let want = poly::mul_q(&ai, &bi);
    if got.iter().zip(want.iter()).any(|(g, w)| *g as i64 != *w) {
        return Some(format!("n={}: intt(ntt(a) .* ntt(b)) differs from the schoolbook negacyclic product on a dense pair", n));
    }
    None
}

/// Extreme-value families: the basis argument needs the gates to be exact for every intermediate value,
/// so vectors that maximise partial sums inside the butterflies are checked against a naive O(n^2)
/// transform: value q-1 (and 1) on every aligned block of every power-of-two size, both as coefficient
/// vectors through ntt and as spectra through intt.
fn check_extremes(n: usize) -> (u64, Vec<Found>) {
    let mut out = vec![];
    let mut cases = 0u64;
    if n < 2 {
        return (0, out);
    }
    // the root evaluated in each output slot, read off ntt(X)
    let slot_root: Vec<i64> = slot_roots(n);
    let inv = zq::inverse_table();
    let ninv = inv[(n as i64 % Q) as usize];
    // powers of each slot root and of its inverse
    let pow: Vec<Vec<i64>> = slot_root.iter().map(|&w| { let mut v = vec![1i64; n]; for j in 1..n { v[j] = v[j - 1] * w % Q; } v }).collect();
    let ipow: Vec<Vec<i64>> = slot_root.iter().map(|&w| { let wi = inv[w as usize]; let mut v = vec![1i64; n]; for j in 1..n { v[j] = v[j - 1] * wi % Q; } v }).collect();
    let mut size = 1;
    while size <= n {
        for off in (0..n).step_by(size) {
            for val in [(Q - 1) as u32, 1u32] {
                if val == 1 && size != n && size != 16 {
                    continue;
                }
                let mut v = vec![0u32; n];
                for x in v[off..off + size].iter_mut() {
                    *x = val;
                }
                cases += 2;
                // forward: ntt(v)[k] = sum_j v_j w_k^j
                let want_f: Vec<i64> = (0..n).map(|k| { let mut acc = 0i64; for j in off..off + size { acc += val as i64 * pow[k][j] % Q; } acc % Q }).collect();
                let got_f = crate::ctx::catch(|| fh::felt_fft(&v));
                match got_f {
                    Ok(g) if g.iter().zip(want_f.iter()).all(|(a, b)| *a as i64 == *b) => {}
                    Ok(_) => {
                        if out.len() < 4 {
                            out.push(found(format!("ntt:n={}:extreme-forward", n), format!("n={}: ntt of the vector with {} on coefficients {}..{} differs from the defining sum", n, val, off, off + size), json!({"kind":"extreme","n":n})));
                        }
                    }
                    Err(e) => {
                        if out.len() < 4 {
                            out.push(found(format!("ntt:n={}:extreme-forward-panic", n), format!("n={}: ntt panicked on the vector with {} on coefficients {}..{}: {}", n, val, off, off + size, e), json!({"kind":"extreme","n":n})));
                        }
                    }
                }
                // inverse: intt(S)[j] = n^-1 sum_k S_k w_k^-j
                let want_i: Vec<i64> = (0..n).map(|j| { let mut acc = 0i64; for k in off..off + size { acc += val as i64 * ipow[k][j] % Q; } acc % Q * ninv % Q }).collect();
                let got_i = crate::ctx::catch(|| fh::felt_ifft(&v));
                match got_i {
                    Ok(g) if g.iter().zip(want_i.iter()).all(|(a, b)| *a as i64 == *b) => {}
                    Ok(_) => {
                        if out.len() < 4 {
                            out.push(found(format!("ntt:n={}:extreme-inverse", n), format!("n={}: intt of the spectrum with {} on slots {}..{} differs from the defining sum", n, val, off, off + size), json!({"kind":"extreme","n":n})));
                        }
                    }
                    Err(e) => {
                        if out.len() < 4 {
                            out.push(found(format!("ntt:n={}:extreme-inverse-panic", n), format!("n={}: intt panicked on the spectrum with {} on slots {}..{}: {}", n, val, off, off + size, e), json!({"kind":"extreme","n":n})));
                        }
                    }
                }
            }
        }
        size *= 2;
    }
    (cases, out)
}

/// Intermediate-state sparsity. A radix-2 transform passes through the residues of the input modulo the factors
/// X^m - zeta of X^n + 1 (B = n/m blocks of length m). Inputs are built by CRT so that each half of each block is
/// either zero or dense: a shortcut that looks at the data (skip a zero block, reuse a scratch row, special-case a
/// zero upper half) is exercised with every combination of neighbours. Level m close to n probes the first layers
/// of the forward transform, small m the first layers of the inverse. Oracle: the defining sums over the slot
/// roots read off ntt(X).
pub(crate) fn sparsity_patterns(halves: usize) -> Vec<Vec<bool>> {
    let mut out: Vec<Vec<bool>> = vec![];
    if halves <= 8 {
        for mask in 0..(1u32 << halves) {
            out.push((0..halves).map(|h| (mask >> h) & 1 == 1).collect());
        }
        return out;
    }
    let sel: Vec<usize> = (0..halves).filter(|h| *h < 6 || *h + 4 >= halves || *h == halves / 2 || *h == halves / 2 + 1).collect();
    for &i in &sel {
        let mut p = vec![false; halves];
        p[i] = true;
        out.push(p.clone()); // one dense half
        out.push(p.iter().map(|x| !x).collect()); // one zero half
        for &j in &sel {
            if j > i {
                let mut p2 = vec![false; halves];
                p2[i] = true;
                p2[j] = true;
                out.push(p2.clone());
                out.push(p2.iter().map(|x| !x).collect());
            }
        }
    }
    out.push((0..halves).map(|h| h % 2 == 0).collect()); // every upper half zero
    out.push((0..halves).map(|h| h % 2 == 1).collect()); // every lower half zero
    out.push((0..halves).map(|h| h % 4 < 2).collect()); // odd blocks zero
    out.push((0..halves).map(|h| h % 4 != 3).collect()); // upper half zero in odd blocks only
    out.push((0..halves).map(|h| h % 4 != 1).collect()); // upper half zero in even blocks only
    out.push((0..halves).map(|h| h % 4 == 0 || h % 4 == 3).collect());
    out
}

fn check_sparsity(n: usize) -> (u64, Vec<Found>) {
    let mut out: Vec<Found> = vec![];
    if n < 8 {
        return (0, out);
    }
    let slot_root: Vec<i64> = slot_roots(n);
    let inv = zq::inverse_table();
    let psi = slot_root[0];
    let pow: Vec<Vec<i64>> = slot_root.iter().map(|&w| { let mut v = vec![1i64; n]; for j in 1..n { v[j] = v[j - 1] * w % Q; } v }).collect();
    let mut levels: Vec<usize> = vec![n / 2, n / 4, n / 8, 8, 16, 32];
    levels.retain(|&m| m >= 2 && m < n);
    levels.sort();
    levels.dedup();
    let mut jobs: Vec<(usize, Vec<bool>)> = vec![];
    for &m in &levels {
        for p in sparsity_patterns(2 * (n / m)) {
            jobs.push((m, p));
        }
    }
    let cases = jobs.len() as u64;
    let res: Vec<Option<Found>> = jobs
        .par_iter()
        .map(|(m, pat)| {
            let m = *m;
            let b = n / m;
            let binv = inv[(b as i64 % Q) as usize];
            // zeta_b = psi^(m (2b+1)), residues r_b: half h = 2*block + (upper ? 1 : 0)
            let zetas: Vec<i64> = (0..b).map(|i| zq::pow(psi, (m * (2 * i + 1)) as u64)).collect();
            let res_at = |blk: usize, p: usize| -> i64 {
                let h = 2 * blk + if p >= m / 2 { 1 } else { 0 };
                if pat[h] { 1 + ((blk as i64 * 7919 + p as i64 * 104729 + 12345) % (Q - 1)) } else { 0 }
            };
            let mut a = vec![0u32; n];
            for c in 0..b {
                for p in 0..m {
                    let mut acc = 0i64;
                    for blk in 0..b {
                        let r = res_at(blk, p);
                        if r != 0 {
                            acc += r * zq::pow(inv[zetas[blk] as usize], c as u64) % Q;
                        }
                    }
                    a[c * m + p] = (acc % Q * binv % Q) as u32;
                }
            }
            let want: Vec<i64> = (0..n).map(|k| { let mut acc = 0i64; for j in 0..n { acc += a[j] as i64 * pow[k][j] % Q; } acc % Q }).collect();
            let describe = || format!("blocks of length {} with dense halves {:?}", m, pat.iter().enumerate().filter(|(_, x)| **x).map(|(i, _)| i).collect::<Vec<_>>());
            let case = || json!({"kind":"sparsity","n":n,"m":m,"pattern":pat});
            match crate::ctx::catch(|| fh::felt_fft(&a)) {
                Ok(g) if g.iter().zip(want.iter()).all(|(x, y)| *x as i64 == *y) => {}
                Ok(_) => return Some(found(format!("ntt:n={}:sparsity-forward", n), format!("n={}: ntt of the input whose residues modulo X^{} - zeta are [{}] differs from the defining sum", n, m, describe()), case())),
                Err(e) => return Some(found(format!("ntt:n={}:sparsity-forward-panic", n), format!("n={}: ntt panicked on [{}]: {}", n, describe(), e), case())),
            }
            let spectrum: Vec<u32> = want.iter().map(|&x| x as u32).collect();
            match crate::ctx::catch(|| fh::felt_ifft(&spectrum)) {
                Ok(g) if g == a => None,
                Ok(_) => Some(found(format!("ntt:n={}:sparsity-inverse", n), format!("n={}: intt of the spectrum of the polynomial whose residues modulo X^{} - zeta are [{}] does not return it", n, m, describe()), case())),
                Err(e) => Some(found(format!("ntt:n={}:sparsity-inverse-panic", n), format!("n={}: intt panicked on the spectrum of [{}]: {}", n, describe(), e), case())),
            }
        })
        .collect();
    for f in res.into_iter().flatten() {
        if out.len() < 4 && !out.iter().any(|x| x.key == f.key) {
            out.push(f);
        }
    }
    (cases, out)
}

pub fn run(tier: Tier) {
    let mut ctx = Ctx::new("C11", tier);

    let mut part = Part::new(
        "tables",
        "all 1024 entries of both twiddle tables against psi^(+-brv(i)) with psi = table[512], psi^1024 = -1; all 11 n^-1 constants",
    );
    let (eqs, f) = check_tables();
    part.states = eqs;
    part.transitions = eqs;
    part.validated = eqs;
    part.exhaustive = true;
    let (fwd, _, ninv) = fh::felt_tables();
    part.outcome(format!("psi={} ninv_512={} ninv_1024={}", fwd[512], ninv[9], ninv[10]));
    part.outcome(format!("table[1]={} table[1023]={}", fwd[1], fwd[1023]));
    for x in f {
        ctx.violation(x.key, x.what, x.case);
    }
    ctx.add_part(part);

    let sizes = crate::util::sizes(1);
    let results: Vec<(usize, SizeResult)> = sizes
        .par_iter()
        .map(|&n| {
            let all_pairs = tier.thorough() || n <= 256;
            match crate::ctx::catch(|| check_size(n, all_pairs, tier.thorough())) {
                Ok(r) => (n, r),
                Err(e) => (
                    n,
                    SizeResult { eqs_basis: 0, pairs: 0, lin: 0, densep: 0, found: vec![found(format!("ntt:n={}:panic", n), format!("n={}: the transform pipeline panicked on basis / pair / dense inputs: {}", n, e), json!({"kind":"basis","n":n,"i":0}))] },
                ),
            }
        })
        .collect();
    let mut pb = Part::new(
        "basis",
        "for every n in {1,2,4,...,1024}: ntt(X^i)[k] = omega_k^i for all i,k where omega_k = ntt(X)[k] must be n distinct roots of X^n+1 (ordering-agnostic), and intt(ntt(X^i)) = X^i",
    );
    let mut pp = Part::new(
        "basis_pairs",
        if tier.thorough() {
            "for every n <= 1024 and ALL pairs (i,j): intt(ntt(X^i) .* ntt(X^j)) = +-X^((i+j) mod n)"
        } else {
            "for every n <= 256 all pairs (i,j), for n in {512,1024} all i and j in {0,1,n/2,n-1}: intt(ntt(X^i) .* ntt(X^j)) = +-X^((i+j) mod n)"
        },
    );
    let mut pl = Part::new(
        "linearity_premise",
        "ntt(a X^i + b X^j) = a ntt(X^i) + b ntt(X^j) for a,b in {1,6144,6145,12288}, all i<j (n <= 64 quick, n <= 256 thorough); 16 dense structured pairs per n against the schoolbook negacyclic product",
    );
    for (n, r) in results {
        pb.states += n as u64;
        pb.transitions += 2 * n as u64;
        pb.validated += r.eqs_basis;
        pp.states += r.pairs;
        pp.transitions += r.pairs;
        pp.validated += r.pairs;
        pl.states += r.lin + r.densep;
        pl.transitions += r.lin + 3 * r.densep;
        pl.validated += r.lin + r.densep;
        pb.outcome(format!("n={} basis equalities={}", n, r.eqs_basis));
        pp.outcome(format!("n={} pairs={}", n, r.pairs));
        for x in r.found {
            ctx.violation(x.key, x.what, x.case);
        }
    }
    pb.exhaustive = true;
    pp.exhaustive = tier.thorough();
    pl.exhaustive = false;
    ctx.add_part(pb);
    ctx.add_part(pp);
    ctx.add_part(pl);
    let ex: Vec<(usize, (u64, Vec<Found>))> = sizes.par_iter().map(|&n| (n, check_extremes(n))).collect();
    let mut pe = Part::new("extreme_values", "every n: the value q-1 on every aligned block of every power-of-two size (and 1 on the full vector and on 16-blocks), as a coefficient vector through ntt and as a spectrum through intt, against the defining O(n^2) sums over the slot roots read off ntt(X): vectors that maximise partial sums inside the butterflies (lazy reductions, narrow accumulators)");
    for (n, (c, f)) in ex {
        pe.states += c;
        pe.transitions += c;
        pe.validated += c;
        pe.outcome(format!("n={} vectors={}", n, c));
        for x in f {
            ctx.violation(x.key, x.what, x.case);
        }
    }
    pe.exhaustive = true;
    ctx.add_part(pe);
    // (the jobs of one size already run in parallel)
    let mut psp = Part::new("intermediate_sparsity", "every n >= 8: inputs built by CRT so that their residues modulo the factors X^m - zeta of X^n+1 (the states a radix-2 transform passes through) have each half-block either zero or dense, for m in {n/2, n/4, n/8, 8, 16, 32}: all zero/dense patterns when there are at most 8 halves, otherwise one or two dense halves, one or two zero halves (over a selection of blocks) and periodic patterns; ntt against the defining sums over the slot roots, intt of that spectrum back to the input");
    for &n in &sizes {
        let (c, f) = check_sparsity(n);
        psp.states += c;
        psp.transitions += 2 * c;
        psp.validated += c;
        psp.outcome(format!("n={} inputs={}", n, c));
        for x in f {
            ctx.violation(x.key, x.what, x.case);
        }
    }
    psp.exhaustive = true;
    ctx.add_part(psp);
    // length histories on one thread with inputs that share a prefix across lengths (a low-degree polynomial
    // zero-padded to each length) and dense ones: a memo of recent transforms, a table remembered from another
    // length or a scratch row must not leak into the next call
    {
        let hsizes: Vec<usize> = vec![2, 4, 8, 16, 64, 512, 1024];
        let mut hists: Vec<Vec<usize>> = vec![];
        for &a in &hsizes {
            for &b in &hsizes {
                for &c in &hsizes {
                    hists.push(vec![a, b, c]);
                }
            }
        }
        // reference spectra per length and input kind, from the slot roots of that length
        let refs: std::collections::BTreeMap<(usize, usize), (Vec<u32>, Vec<u32>)> = hsizes
            .par_iter()
            .flat_map(|&n| {
                let slot_root: Vec<i64> = slot_roots(n);
                (0..2usize)
                    .map(|kind| {
                        let a: Vec<u32> = if kind == 0 { (0..n).map(|i| [3u32, 1, 5, 12288][i % 4] * if i < 4 { 1 } else { 0 }).collect() } else { dense(n, 3) };
                        let want: Vec<u32> = (0..n).map(|k| { let mut acc = 0i64; let mut p = 1i64; for j in 0..n { acc = (acc + a[j] as i64 * p) % Q; p = p * slot_root[k] % Q; } acc as u32 }).collect();
                        ((n, kind), (a, want))
                    })
                    .collect::<Vec<_>>()
            })
            .collect();
        let refs = std::sync::Arc::new(refs);
        let res: Vec<(Vec<usize>, Result<Option<usize>, String>)> = hists
            .par_iter()
            .map(|h| {
                let (h2, r2) = (h.clone(), refs.clone());
                (h.clone(), crate::sched::on_fresh_thread(move || {
                    // one pass per input kind (consecutive calls see the same prefix at different lengths), then mixed
                    for kinds in [[0usize, 0, 0], [1, 1, 1], [0, 1, 0], [1, 0, 1]] {
                        for (step, &n) in h2.iter().enumerate() {
                            let (a, want) = &r2[&(n, kinds[step])];
                            let f = fh::felt_fft(a);
                            if &f != want || &fh::felt_ifft(&f) != a {
                                return Some(step);
                            }
                        }
                    }
                    None
                }))
            })
            .collect();
        let mut part = Part::new("length_histories", "every sequence of three lengths over {2, 4, 8, 16, 64, 512, 1024} on one fresh thread; at each step ntt of (3 + X + 5X^2 - X^3 zero-padded to that length) and of a dense vector against the defining sums, and intt back: every step exact whatever was transformed before");
        for (h, r) in res {
            part.states += 1;
            part.transitions += 4 * h.len() as u64;
            part.validated += 2 * h.len() as u64;
            match r {
                Ok(None) => {}
                Ok(Some(step)) => ctx.violation(format!("ntt:length-history:step{}", step + 1), format!("in the length history {:?} on one thread, step {} (n = {}): ntt / intt of a fixed input differs from the defining sum", h, step + 1, h[step]), json!({"kind":"ntt-history","history":h})),
                Err(e) => ctx.violation("ntt:length-history:panic".to_string(), format!("panic in the length history {:?}: {}", h, e), json!({"kind":"ntt-history","history":h})),
            }
        }
        part.exhaustive = true;
        part.outcome("every step exact".to_string());
        ctx.add_part(part);
    }
    ctx.sample(json!({"n":8,"ntt(X)":fh::felt_fft(&unit(8,1,1)),"meaning":"the 8 roots of X^8+1 mod q in the transform's output order"}));
    ctx.sample(json!({"n":4,"i":3,"j":2,"intt(ntt(X^3).*ntt(X^2))":fh::felt_ifft(&fh::felt_hadamard_mul(&fh::felt_fft(&unit(4,3,1)), &fh::felt_fft(&unit(4,2,1)))),"expected":"-X = [0,12288,0,0]"}));
    ctx.assume("Z_q gates are exact (decided exhaustively by C12); the basis argument presumes butterflies without data-dependent branches - the intermediate_sparsity and extreme_values families probe that premise; given it, agreement on a basis (and on all basis pairs for the bilinear product) extends to all q^n (q^2n) inputs; the linearity premise is additionally exercised on two-term and dense vectors");
    ctx.finish();
}

pub fn replay(case: &Value) -> Result<Option<String>, String> {
    let kind = case.get("kind").and_then(|k| k.as_str()).ok_or("no kind")?;
    let us = |k: &str| case.get(k).and_then(|x| x.as_u64()).map(|x| x as usize);
    match kind {
        "tables" => Ok(check_tables().1.into_iter().next().map(|f| f.what)),
        "basis" | "pair" | "lin" => {
            let n = us("n").ok_or("n")?;
            let r = check_size(n, true, true);
            Ok(r.found.into_iter().next().map(|f| f.what))
        }
        "extreme" => {
            let n = us("n").ok_or("n")?;
            Ok(check_extremes(n).1.into_iter().next().map(|f| f.what))
        }
        "ntt-history" => Err("re-run ./vf check C11 (the length histories are enumerated deterministically)".into()),
        "sparsity" => {
            let n = us("n").ok_or("n")?;
            Ok(check_sparsity(n).1.into_iter().next().map(|f| f.what))
        }
        "dense" => {
            let n = us("n").ok_or("n")?;
            let s = us("s").ok_or("s")?;
            Ok(check_dense(n, &dense(n, 2 * s), &dense(n, 2 * s + 1)))
        }
        _ => Err(format!("unknown kind {}", kind)),
    }
}

//! C02 - verify accepts exactly what Algorithm 16 accepts. Engineered (msg, sig, pk) triples whose
//! (s1, s2) has a prescribed squared norm (bound-1 / bound / bound+1 / far / wrap-around sizes),
//! entries on the centred-range edge, and malformed encodings embedded in otherwise acceptable
//! signatures; every triple through the real from_bytes + verify and the reference Algorithm 16.

use super::gen_codec::{for_each_tail, Bits};
use super::{found, Found};
use crate::api::{Variant, V1024, V512};
use crate::ctx::{catch, hex, machinery_error, unhex, Ctx, Part, Tier};
use crate::pq;
use crate::refmodel::{keccak, keycodec, poly, sig_bound, sig_len, verify as refverify, zq, Q};
use rayon::prelude::*;
use serde_json::{json, Value};
use std::collections::BTreeMap;

/// integers with sum of squares = r, each |x| <= 6144
pub(crate) fn squares(r: i64) -> Option<Vec<i64>> {
    if r < 0 {
        return None;
    }
    // the same few remainders recur for every position / message / salt: memoise
    static CACHE: std::sync::OnceLock<std::sync::Mutex<std::collections::HashMap<i64, Option<Vec<i64>>>>> = std::sync::OnceLock::new();
    let cache = CACHE.get_or_init(|| std::sync::Mutex::new(std::collections::HashMap::new()));
    if let Some(v) = cache.lock().unwrap().get(&r) {
        return v.clone();
    }
    let v = squares_uncached(r);
    cache.lock().unwrap().insert(r, v.clone());
    v
}

fn squares_uncached(r: i64) -> Option<Vec<i64>> {
    // some r (e.g. 4^k * m) have no representation by four squares below the cap; retry with a few
    // small entries split off first
    for pre in [&[][..], &[1][..], &[2][..], &[3][..], &[1, 2][..], &[5][..], &[7, 1][..]] {
        let used: i64 = pre.iter().map(|x| x * x).sum();
        if used > r {
            continue;
        }
        if let Some(mut v) = squares_budgeted(r - used) {
            v.extend_from_slice(pre);
            return Some(v);
        }
    }
    None
}

fn squares_budgeted(mut r: i64) -> Option<Vec<i64>> {
    let mut out = vec![];
    let big = 6144i64 * 6144;
    while r >= big + 2 * 6144 {
        out.push(6144);
        r -= big;
    }
    let mut budget = 200_000u32;
    // four squares by greedy search from the top
    let mut a = ((r as f64).sqrt() as i64 + 1).min(6144);
    while a >= 0 {
        let ra = r - a * a;
        if ra < 0 {
            a -= 1;
            continue;
        }
        if ra > 3 * a * a {
            break;
        }
        let mut b = ((ra as f64).sqrt() as i64 + 1).min(a);
        while b >= 0 {
            let rb = ra - b * b;
            if rb < 0 {
                b -= 1;
                continue;
            }
            if rb > 2 * b * b {
                break;
            }
            let mut c = ((rb as f64).sqrt() as i64 + 1).min(b);
            while c >= 0 {
                let rc = rb - c * c;
                if rc < 0 {
                    c -= 1;
                    continue;
                }
                if rc > c * c {
                    break;
                }
                let d = (rc as f64).sqrt().round() as i64;
                if d * d == rc {
                    for v in [a, b, c, d] {
                        if v != 0 {
                            out.push(v);
                        }
                    }
                    return Some(out);
                }
                budget = budget.checked_sub(1)?;
                c -= 1;
            }
            b -= 1;
        }
        a -= 1;
    }
    None
}

struct Triple {
    n: usize,
    msg: Vec<u8>,
    sig: Vec<u8>,
    pk: Vec<u8>,
    /// expectation by construction (None when not known a priori)
    expect: Option<bool>,
    tag: String,
}

/// h such that c - s2*h = s1 (mod q), for invertible s2
pub(crate) fn solve_h(c: &[i64], s1: &[i64], s2: &[i64]) -> Option<Vec<i64>> {
    let n = c.len();
    let s2inv = if s2.iter().filter(|&&x| x != 0).count() == 1 {
        // monomial a X^i: inverse is -a^-1 X^(n-i) (or a^-1 for i = 0)
        let i = s2.iter().position(|&x| x != 0).unwrap();
        let inv = zq::inverse_table();
        let ai = inv[s2[i].rem_euclid(Q) as usize];
        let mut v = vec![0i64; n];
        if i == 0 {
            v[0] = ai;
        } else {
            v[n - i] = zq::neg(ai);
        }
        v
    } else {
        poly::inv_q(s2)?
    };
    let diff: Vec<i64> = (0..n).map(|k| zq::sub(c[k], s1[k])).collect();
    Some(poly::mul_q(&s2inv, &diff))
}

pub(crate) fn encode_sig(n: usize, salt: &[u8], body: &[u8]) -> Vec<u8> {
    let mut s = vec![0x50 | keycodec::logn(n)];
    s.extend_from_slice(salt);
    s.extend_from_slice(body);
    s
}

fn body_of(n: usize, s2: &[i64]) -> Option<Vec<u8>> {
    crate::refmodel::codec::compress(s2, sig_len(n) - 41)
}

/// s1 supported on coordinates disjoint from nothing in particular: spread the given entries with
/// alternating signs over positions starting at `at`
pub(crate) fn sparse(n: usize, entries: &[i64], at: usize) -> Vec<i64> {
    let mut v = vec![0i64; n];
    for (k, &e) in entries.iter().enumerate() {
        let pos = (at + 3 * k) % n;
        assert_eq!(v[pos], 0);
        v[pos] = if k % 2 == 0 { e } else { -e };
    }
    v
}

#[derive(Default)]
struct Tally {
    cases: u64,
    acc: u64,
    rej_norm: u64,
    rej_enc: u64,
    pq_compared: u64,
    ns_build: u64,
    ns_ref: u64,
    ns_impl: u64,
    ns_pq: u64,
    found: BTreeMap<String, Found>,
    nviol: u64,
}

impl Tally {
    fn merge(&mut self, o: Tally) {
        self.cases += o.cases;
        self.acc += o.acc;
        self.rej_norm += o.rej_norm;
        self.rej_enc += o.rej_enc;
        self.pq_compared += o.pq_compared;
        self.ns_build += o.ns_build;
        self.ns_ref += o.ns_ref;
        self.ns_impl += o.ns_impl;
        self.ns_pq += o.ns_pq;
        self.nviol += o.nviol;
        for (k, v) in o.found {
            self.found.entry(k).or_insert(v);
        }
    }
    fn into_part(self, ctx: &mut Ctx, mut part: Part) {
        part.states = self.cases;
        part.transitions = 3 * self.cases;
        part.validated = self.cases;
        part.outcome(format!("accept x{}", self.acc));
        part.outcome(format!("reject (norm) x{}", self.rej_norm));
        part.outcome(format!("reject (encoding) x{}", self.rej_enc));
        part.set("violating_cases", json!(self.nviol));
        part.set("also_compared_with_pqclean_verify", json!(self.pq_compared));
        part.set("cpu_seconds", json!({"construct": self.ns_build as f64 / 1e9, "reference": self.ns_ref as f64 / 1e9, "implementation": self.ns_impl as f64 / 1e9, "pqclean": self.ns_pq as f64 / 1e9}));
        for (_, f) in self.found {
            ctx.violation(f.key, f.what, f.case);
        }
        ctx.add_part(part);
    }
}

fn reduce(mut a: Tally, b: Tally) -> Tally {
    a.merge(b);
    a
}

fn impl_verify<V: Variant>(t: &Triple) -> Result<bool, String> {
    catch(|| {
        let pk = V::pk_from_bytes(&t.pk).map_err(|e| format!("pk rejected: {}", e))?;
        let sig = V::sig_from_bytes(&t.sig).map_err(|e| format!("sig rejected: {}", e))?;
        Ok::<bool, String>(V::verify(&t.msg, &sig, &pk))
    })
    .and_then(|r| r)
}

fn judge<V: Variant>(tl: &mut Tally, t: &Triple) {
    tl.cases += 1;
    let n = t.n;
    let Some(h) = keycodec::pk_decode(&t.pk, n) else {
        machinery_error("C02: constructed public key does not decode in the reference");
    };
    let t0 = std::time::Instant::now();
    let rv = refverify::verify(n, &t.msg, &t.sig[1..41], &t.sig[41..], &h);
    tl.ns_ref += t0.elapsed().as_nanos() as u64;
    match &rv {
        refverify::Verdict::Accept { .. } => tl.acc += 1,
        refverify::Verdict::RejectNorm { .. } => tl.rej_norm += 1,
        refverify::Verdict::RejectEncoding => tl.rej_enc += 1,
    }
    if let Some(e) = t.expect {
        if e != rv.accepted() {
            machinery_error(&format!("C02: reference verdict {:?} contradicts the construction ({}) of triple {}", rv, e, t.tag));
        }
    }
    let case = || json!({"kind":"triple","variant":n,"msg":hex(&t.msg),"sig":hex(&t.sig),"pk":hex(&t.pk),"tag":t.tag});
    let t0 = std::time::Instant::now();
    let iv = impl_verify::<V>(t);
    tl.ns_impl += t0.elapsed().as_nanos() as u64;
    match iv {
        Ok(got) => {
            if got != rv.accepted() {
                tl.nviol += 1;
                let key = format!("verify:{}:{}", if got { "accepts-invalid" } else { "rejects-valid" }, t.tag.split(';').next().unwrap_or(""));
                let what = format!("{}::verify = {} but Algorithm 16 gives {:?} on triple [{}]", V::name(), got, rv, t.tag);
                tl.found.entry(key.clone()).or_insert_with(|| found(key, what, case()));
            }
        }
        Err(e) => {
            tl.nviol += 1;
            let key = format!("verify:error:{}", t.tag.split(';').next().unwrap_or(""));
            let what = format!("{}::verify failed ({}) where Algorithm 16 gives {:?} on triple [{}]", V::name(), e, rv, t.tag);
            tl.found.entry(key.clone()).or_insert_with(|| found(key, what, case()));
        }
    }
    // PQClean as a secondary oracle on the common domain (well-formed, |s2_i| <= 2047)
    if let refverify::Verdict::Accept { .. } | refverify::Verdict::RejectNorm { .. } = rv {
        let s2 = crate::refmodel::codec::decompress(&t.sig[41..], n).unwrap();
        if s2.iter().all(|x| x.abs() <= 2047) {
            let t0 = std::time::Instant::now();
            let pqsig = pq::rust_sig_to_pq(&t.sig);
            let pv = if n == 512 { pq::f512::verify(&pqsig, &t.msg, &t.pk) } else { pq::f1024::verify(&pqsig, &t.msg, &t.pk) };
            tl.pq_compared += 1;
            tl.ns_pq += t0.elapsed().as_nanos() as u64;
            if pv != rv.accepted() {
                machinery_error(&format!("C02: PQClean verify ({}) disagrees with the reference model ({:?}) on triple {}", pv, rv, t.tag));
            }
        }
    }
}

#[derive(Clone)]
struct NormSpec {
    mi: usize,
    si: usize,
    a: i64,
    i: usize,
    t: i64,
    two_term: bool,
}

const MSGS: [&[u8]; 3] = [b"", b"a", b"data1"];

fn salts() -> Vec<Vec<u8>> {
    vec![vec![0u8; 40], vec![0xffu8; 40], (0u8..40).collect()]
}

fn norm_specs(n: usize, positions: &[usize], two_term: bool) -> Vec<NormSpec> {
    let bound = sig_bound(n);
    let beta = (bound as f64).sqrt().floor() as i64;
    let avals = [1i64, -1, 2, 127, -127, 128, -128, 129, 2047, 2048, beta, beta + 1, 12159];
    let targets = [1i64, bound - 1, bound, bound + 1, bound + 1_000_000, 1 << 31, (1 << 32) + 1000];
    let mut out = vec![];
    for mi in 0..3 {
        for si in 0..3 {
            for &a in &avals {
                for &i in positions {
                    for &t in &targets {
                        out.push(NormSpec { mi, si, a, i, t, two_term });
                    }
                }
            }
        }
    }
    out
}

fn build_norm(n: usize, sp: &NormSpec, cs: &[Vec<i64>]) -> Option<Triple> {
    let bound = sig_bound(n);
    let c = &cs[3 * sp.mi + sp.si];
    let salt = &salts()[sp.si];
    let mut s2 = vec![0i64; n];
    s2[sp.i] = sp.a;
    if sp.two_term {
        let j = (sp.i + n / 2 + 1) % n;
        s2[j] = if sp.a > 0 { 3 } else { -3 };
    }
    let n2: i64 = s2.iter().map(|x| x * x).sum();
    let body = body_of(n, &s2)?;
    let r = sp.t - n2;
    if r < 0 {
        return None;
    }
    let sq = squares(r)?;
    if sq.len() * 3 >= n {
        return None;
    }
    let s1 = sparse(n, &sq, (sp.i + 1) % n);
    let h = solve_h(c, &s1, &s2)?;
    Some(Triple {
        n,
        msg: MSGS[sp.mi].to_vec(),
        sig: encode_sig(n, salt, &body),
        pk: keycodec::pk_encode(&h),
        expect: Some(sp.t <= bound),
        tag: format!("norm:n={},T-bound={}{};a={},i={},msg{},salt{}", n, sp.t - bound, if sp.two_term { ",two-term" } else { "" }, sp.a, sp.i, sp.mi, sp.si),
    })
}

fn run_norm<V: Variant>(ctx: &mut Ctx, name: &str, space: &str, specs: Vec<NormSpec>) {
    let n = V::N;
    let mut cs = vec![];
    for mi in 0..3 {
        for si in 0..3 {
            let mut sm = salts()[si].clone();
            sm.extend_from_slice(MSGS[mi]);
            cs.push(keccak::hash_to_point(&sm, n, None));
        }
    }
    let t = specs
        .par_iter()
        .map(|sp| {
            let mut tl = Tally::default();
            let t0 = std::time::Instant::now();
            let b = build_norm(n, sp, &cs);
            tl.ns_build += t0.elapsed().as_nanos() as u64;
            if let Some(tr) = b {
                judge::<V>(&mut tl, &tr);
            }
            tl
        })
        .reduce(Tally::default, reduce);
    if t.acc == 0 || t.rej_norm == 0 {
        machinery_error("C02: the norm-boundary family produced only one verdict (vacuity guard)");
    }
    let mut part = Part::new(name, space);
    part.exhaustive = true;
    t.into_part(ctx, part);
}

/// entries of s1 on the edge of the centred range, total exactly at / just above the bound
fn edge_triples(n: usize) -> Vec<Triple> {
    let bound = sig_bound(n);
    let salt = vec![0x11u8; 40];
    let msg = b"edge".to_vec();
    let mut sm = salt.clone();
    sm.extend_from_slice(&msg);
    let c = keccak::hash_to_point(&sm, n, None);
    let mut out = vec![];
    for edge in [6144i64, -6144, 6143, -6143] {
        for t in [bound, bound + 1, bound - 1] {
            let mut s2 = vec![0i64; n];
            s2[5] = 1;
            let r = t - 1 - edge * edge;
            let Some(mut sq) = squares(r) else { continue };
            sq.retain(|&x| x != 0);
            let mut s1 = sparse(n, &sq, 9);
            assert_eq!(s1[0], 0);
            s1[0] = edge;
            let Some(h) = solve_h(&c, &s1, &s2) else { continue };
            out.push(Triple {
                n,
                msg: msg.clone(),
                sig: encode_sig(n, &salt, &body_of(n, &s2).unwrap()),
                pk: keycodec::pk_encode(&h),
                expect: Some(t <= bound),
                tag: format!("edge:n={},s1[0]={},T-bound={}", n, edge, t - bound),
            });
        }
    }
    out
}

/// unary run x cursor alignment: s2 = v X^j with |v| = 128 r + low for every run length r in 0..=95 at every bit
/// alignment (j = 1..=8 nine-bit zeros precede it), s1 = 0; accepted iff v^2 <= bound
fn run_alignment_triples(n: usize) -> Vec<Triple> {
    let bound = sig_bound(n);
    let salt = vec![0x27u8; 40];
    let msg = b"runs".to_vec();
    let mut sm = salt.clone();
    sm.extend_from_slice(&msg);
    let c = keccak::hash_to_point(&sm, n, None);
    let zero = vec![0i64; n];
    let mut out = vec![];
    for j in 1..=8usize {
        for r in 0..=95i64 {
            for low in [0i64, 127] {
                for sgn in [1i64, -1] {
                    let v = sgn * (128 * r + low);
                    if v == 0 {
                        continue;
                    }
                    let mut s2 = vec![0i64; n];
                    s2[j] = v;
                    let Some(body) = body_of(n, &s2) else { continue };
                    let Some(h) = solve_h(&c, &zero, &s2) else { continue };
                    out.push(Triple { n, msg: msg.clone(), sig: encode_sig(n, &salt, &body), pk: keycodec::pk_encode(&h), expect: Some(v * v <= bound), tag: format!("run-alignment:n={},{};run={},align={},low={}", n, if v * v <= bound { "in" } else { "out" }, r, (9 * j) % 8, low) });
                }
            }
        }
    }
    out
}

/// call histories on one thread with public keys that differ from one another in a single coefficient: the
/// verdict of every call is Algorithm 16's on its own arguments (a memo of per-key precomputations keyed by part
/// of the key, or by where the key object lives, shows in the second or third call)
fn lookalike_key_histories<V: Variant>(ctx: &mut Ctx) {
    let n = V::N;
    let bound = sig_bound(n);
    let salt = vec![0x5bu8; 40];
    let msg = b"lookalike keys".to_vec();
    let mut sm = salt.clone();
    sm.extend_from_slice(&msg);
    let c = keccak::hash_to_point(&sm, n, None);
    let mut s2 = vec![0i64; n];
    s2[3] = 1;
    let Some(sq) = squares(bound - 1) else { return };
    let s1 = sparse(n, &sq, 9);
    let Some(h) = solve_h(&c, &s1, &s2) else { return };
    let body = body_of(n, &s2).unwrap();
    let sig = encode_sig(n, &salt, &body);
    // keys: the solving key (accept) and keys that differ from it in exactly one coefficient
    let mut keys: Vec<(String, Vec<i64>)> = vec![("the key the signature was built for".into(), h.clone())];
    for p in [0usize, 1, 3, 4, 5, 8, n / 2, n - 1] {
        let mut h2 = h.clone();
        h2[p] = (h2[p] + 1) % Q;
        keys.push((format!("the same key with coefficient {} increased by one", p), h2));
    }
    let pkbytes: Vec<Vec<u8>> = keys.iter().map(|(_, h)| keycodec::pk_encode(h)).collect();
    let want: Vec<bool> = keys.iter().map(|(_, h)| refverify::verify(n, &msg, &sig[1..41], &sig[41..], h).accepted()).collect();
    let mut hists: Vec<Vec<usize>> = vec![];
    for a in 0..keys.len() {
        for b in 0..keys.len() {
            if a != b {
                hists.push(vec![a, b]);
                hists.push(vec![a, b, a]);
            }
        }
    }
    let mut part = Part::new(&format!("lookalike_key_histories_{}", n), &format!("one signature at squared norm exactly the bound and {} public keys (the key it verifies under and keys differing from it in one coefficient at position 0, 1, 3, 4, 5, 8, n/2, n-1); every ordered pair and triple (x, y, x) of verify calls on one fresh thread, each key decoded into the SAME local variable as the previous one: every verdict is Algorithm 16's", keys.len()));
    let res: Vec<(Vec<usize>, Result<Vec<bool>, String>)> = hists
        .par_iter()
        .map(|hh| {
            let (h2, pkb, sg, m) = (hh.clone(), pkbytes.clone(), sig.clone(), msg.clone());
            (hh.clone(), crate::sched::on_fresh_thread(move || {
                let sigo = V::sig_from_bytes(&sg).unwrap();
                let mut cur = V::pk_from_bytes(&pkb[h2[0]]).unwrap();
                let mut out = vec![];
                for (i, &k) in h2.iter().enumerate() {
                    if i > 0 {
                        cur = V::pk_from_bytes(&pkb[k]).unwrap();
                    }
                    out.push(V::verify(&m, &sigo, &cur));
                }
                out
            }))
        })
        .collect();
    for (hh, r) in res {
        part.states += 1;
        part.transitions += hh.len() as u64;
        part.validated += hh.len() as u64;
        match r {
            Err(e) => ctx.violation(format!("verify:history-panic:n={}", n), format!("verify panicked in a call history over lookalike keys: {}", e), json!({"kind":"key-history","variant":n,"history":hh})),
            Ok(vs) => {
                for (step, v) in vs.iter().enumerate() {
                    if *v != want[hh[step]] {
                        ctx.violation(
                            format!("verify:{}:lookalike-key-history:n={}", if *v { "accepts-invalid" } else { "rejects-valid" }, n),
                            format!("{}: in the call history {:?} on one thread, call {} (under {}) returned {} but Algorithm 16 gives {}", V::name(), hh.iter().map(|&k| if k == 0 { "K".to_string() } else { format!("K'{}", k) }).collect::<Vec<_>>(), step + 1, keys[hh[step]].0, v, want[hh[step]]),
                            json!({"kind":"key-history","variant":n,"history":hh}),
                        );
                        break;
                    }
                }
            }
        }
    }
    part.exhaustive = true;
    part.outcome("every verdict is the reference's".to_string());
    ctx.add_part(part);
}

/// message length ladder: the verdict at the bound and one above it must not depend on how long the message is
fn length_triples(n: usize, thorough: bool) -> Vec<Triple> {
    use rayon::prelude::*;
    let bound = sig_bound(n);
    let salt: Vec<u8> = (100u8..140).collect();
    let top: usize = if thorough { 2100 } else { 520 };
    let mut lens: Vec<usize> = (0..=top).collect();
    for k in [12usize, 13, 14, 16, 18] {
        lens.extend([(1 << k) - 41, (1 << k) - 40, (1 << k) - 1, 1 << k, (1 << k) + 1]);
    }
    let sq_at: Vec<Option<Vec<i64>>> = [bound, bound + 1].iter().map(|t| squares(t - 1)).collect();
    lens.par_iter()
        .flat_map(|&l| {
            let msg: Vec<u8> = (0..l).map(|i| (i as u32).wrapping_mul(2654435761).rotate_left(11) as u8).collect();
            let mut sm = salt.clone();
            sm.extend_from_slice(&msg);
            let c = keccak::hash_to_point(&sm, n, None);
            let mut out = vec![];
            for (ti, t) in [bound, bound + 1].into_iter().enumerate() {
                let mut s2 = vec![0i64; n];
                s2[l % n] = if l % 2 == 0 { 1 } else { -1 };
                let Some(sq) = sq_at[ti].clone() else { continue };
                let s1 = sparse(n, &sq, (l + 1) % n);
                let Some(h) = solve_h(&c, &s1, &s2) else { continue };
                out.push(Triple { n, msg: msg.clone(), sig: encode_sig(n, &salt, &body_of(n, &s2).unwrap()), pk: keycodec::pk_encode(&h), expect: Some(t <= bound), tag: format!("length:n={},T-bound={};len={}", n, t - bound, l) });
            }
            out
        })
        .collect()
}

/// dense short (s1, s2) as an honest signature would have, tuned so the total is exactly T
fn dense_triples(n: usize) -> Vec<Triple> {
    let bound = sig_bound(n);
    let salt: Vec<u8> = (100u8..140).collect();
    let msg = b"dense".to_vec();
    let mut sm = salt.clone();
    sm.extend_from_slice(&msg);
    let c = keccak::hash_to_point(&sm, n, None);
    let mut out = vec![];
    for (k, t) in [bound - 1, bound, bound + 1, bound / 2].into_iter().enumerate() {
        // pattern of magnitude ~ sqrt(T / 2n)
        let m = ((t as f64) / (2.0 * n as f64)).sqrt() as i64;
        let mut s2: Vec<i64> = (0..n).map(|i| ((i as i64 * 37 + k as i64) % (2 * m + 1)) - m).collect();
        s2[0] = 1;
        let mut s1: Vec<i64> = (0..n).map(|i| ((i as i64 * 91 + 7) % (2 * m + 1)) - m).collect();
        // clear 8 coordinates of s1 and refill them to hit the target exactly
        for j in 0..8 {
            s1[j] = 0;
        }
        let cur: i64 = s1.iter().map(|x| x * x).sum::<i64>() + s2.iter().map(|x| x * x).sum::<i64>();
        let r = t - cur;
        if r < 0 {
            continue;
        }
        let Some(sq) = squares(r) else { continue };
        if sq.len() > 8 {
            continue;
        }
        for (j, &e) in sq.iter().enumerate() {
            s1[j] = e;
        }
        let Some(h) = solve_h(&c, &s1, &s2) else { continue };
        let Some(body) = body_of(n, &s2) else { continue };
        out.push(Triple {
            n,
            msg: msg.clone(),
            sig: encode_sig(n, &salt, &body),
            pk: keycodec::pk_encode(&h),
            expect: Some(t <= bound),
            tag: format!("dense:n={},T-bound={}", n, t - bound),
        });
    }
    out
}

/// s2 = 1 and h = c - v, so that s1 = v: v is one extreme value on a support {all, i = r mod m, a half} and 0
/// elsewhere. The squared norm reaches n * 6144^2 overall and its maximum on every stride class (accumulators
/// that are split into lanes or blocks, or too narrow for one variant), and stays tiny for v = +-1.
fn extreme_s1_triples(n: usize) -> Vec<Triple> {
    let salt = vec![0x44u8; 40];
    let msg = b"extreme s1".to_vec();
    let mut sm = salt.clone();
    sm.extend_from_slice(&msg);
    let c = keccak::hash_to_point(&sm, n, None);
    let mut s2 = vec![0i64; n];
    s2[0] = 1;
    let body = body_of(n, &s2).unwrap();
    let mut supports: Vec<(usize, usize)> = vec![(1, 0), (0, 0), (0, 1)];
    let mut m = 2;
    while m <= 64 {
        for r in 0..m {
            supports.push((m, r));
        }
        m *= 2;
    }
    let mut out = vec![];
    for &val in &[6144i64, -6144, 6143, -6143, 1, -1, 2048, -4096] {
        for &(m, r) in &supports {
            let inside = |i: usize| match m {
                0 => (i >= n / 2) == (r == 1),
                _ => i % m == r,
            };
            let h: Vec<i64> = (0..n).map(|i| zq::sub(c[i], if inside(i) { val.rem_euclid(Q) } else { 0 })).collect();
            out.push(Triple { n, msg: msg.clone(), sig: encode_sig(n, &salt, &body), pk: keycodec::pk_encode(&h), expect: None, tag: format!("extreme-s1:n={},v={},stride={}", n, val, m) });
        }
    }
    out
}

/// s2 with one coefficient outside the centred range of Z_q (|a| > q/2) and a small s1: the norm must
/// be computed from the decoded integers, not from residues
fn big_s2_triples(n: usize) -> Vec<Triple> {
    let salt = vec![0x33u8; 40];
    let msg = b"big".to_vec();
    let mut sm = salt.clone();
    sm.extend_from_slice(&msg);
    let c = keccak::hash_to_point(&sm, n, None);
    let mut out = vec![];
    for a in [6144i64, -6144, 6145, -6145, 8192, -8192, 12159, -12159, 12160, -12160, 12288, -12288, 12289, -12289, 12290, 24578, -24578] {
        for i in [0usize, 1, n / 2, n - 1] {
            let mut s2 = vec![0i64; n];
            s2[i] = a;
            let s1 = sparse(n, &[7, 5, 3], (i + 1) % n);
            // for multiples of q, s2 is zero modulo q: h is then arbitrary and s1 = c, handled by the else branch
            let (h, expect) = if a.rem_euclid(Q) != 0 {
                match solve_h(&c, &s1, &s2) {
                    Some(h) => (h, Some(a * a + 83 <= sig_bound(n))),
                    None => continue,
                }
            } else {
                ((0..n as i64).map(|k| (k * 7 + 1) % Q).collect(), Some(false))
            };
            let Some(body) = body_of(n, &s2) else { continue };
            out.push(Triple { n, msg: msg.clone(), sig: encode_sig(n, &salt, &body), pk: keycodec::pk_encode(&h), expect, tag: format!("big-s2:n={},a={};i={}", n, a, i) });
        }
    }
    out
}

/// malformed / non-canonical encodings of an otherwise acceptable signature
fn malformed_triples(n: usize) -> Vec<Triple> {
    let l = sig_len(n) - 41;
    let salt = vec![0x22u8; 40];
    let msg = b"malformed".to_vec();
    let mut sm = salt.clone();
    sm.extend_from_slice(&msg);
    let c = keccak::hash_to_point(&sm, n, None);
    let mut out = vec![];
    // base: s2 = 5 X^3 - 2 X^(n-1) (last coefficient non-zero), s1 small
    for last_val in [-2i64, 0, 3] {
        let mut s2 = vec![0i64; n];
        s2[3] = 5;
        s2[n - 1] = last_val;
        let s1 = sparse(n, &[100, 50, 25], 11);
        let Some(h) = solve_h(&c, &s1, &s2) else { continue };
        let pk = keycodec::pk_encode(&h);
        let tokens: Vec<(bool, u8, usize)> = s2.iter().map(|&v| (v < 0, (v.unsigned_abs() & 127) as u8, (v.unsigned_abs() >> 7) as usize)).collect();
        let build = |mods: &dyn Fn(usize, (bool, u8, usize)) -> Option<(bool, u8, usize)>, extra_bits: &[bool], cut: usize| -> Vec<u8> {
            let mut b = Bits::default();
            for (k, &tk) in tokens.iter().enumerate() {
                if k + cut >= n {
                    break;
                }
                if let Some((s, lo, r)) = mods(k, tk) {
                    b.push_coeff(s, lo, r);
                }
            }
            b.bits.extend_from_slice(extra_bits);
            b.to_bytes(l, false)
        };
        let mut push = |tag: String, body: Vec<u8>, expect: Option<bool>| {
            out.push(Triple { n, msg: msg.clone(), sig: encode_sig(n, &salt, &body), pk: pk.clone(), expect, tag: format!("malformed:n={},{};last={}", n, tag, last_val) });
        };
        push("canonical".into(), build(&|_, t| Some(t), &[], 0), Some(true));
        // negative zero at first, middle, and (when zero) last coefficient
        for pos in [0usize, n / 2, n - 2, n - 1] {
            if s2[pos] == 0 {
                push(format!("negative-zero@{}", pos), build(&|k, t| Some(if k == pos { (true, t.1, t.2) } else { t }), &[], 0), Some(false));
            }
        }
        // padding bits: each of the 24 bit positions after the end of the encoding, and the very last bit
        let used = crate::refmodel::codec::bits_of(&s2);
        for off in (0..24).chain([8 * l - used - 1]) {
            let mut extra = vec![false; off];
            extra.push(true);
            if used + extra.len() <= 8 * l {
                push(format!("padding-bit+{}", off), build(&|_, t| Some(t), &extra, 0), Some(false));
            }
        }
        // unary run of the last / a middle coefficient extended (value changes by 128 * k)
        for add in [1usize, 94, 95, 256, 512] {
            if used + add <= 8 * l {
                push(format!("last-run+{}", add), build(&|k, t| Some(if k == n - 1 { (t.0, t.1, t.2 + add) } else { t }), &[], 0), Some(false));
                push(format!("middle-run+{}", add), build(&|k, t| Some(if k == 3 { (t.0, t.1, t.2 + add) } else { t }), &[], 0), Some(false));
            }
        }
        // one coefficient short (decoder runs into the padding) / one extra coefficient
        push("one-coefficient-short".into(), build(&|_, t| Some(t), &[], 1), Some(false));
        let extra9 = [false, false, false, false, false, false, false, true, true];
        push("one-coefficient-extra".into(), build(&|_, t| Some(t), &extra9, 0), Some(false));
        // last coefficient without its terminating 1 (buffer ends in zeros)
        push("last-unterminated".into(), {
            let mut b = Bits::default();
            for (k, &(s, lo, r)) in tokens.iter().enumerate() {
                if k == n - 1 {
                    b.bits.push(s);
                    for i in (0..7).rev() {
                        b.bits.push((lo >> i) & 1 == 1);
                    }
                } else {
                    b.push_coeff(s, lo, r);
                }
            }
            b.to_bytes(l, false)
        }, Some(false));
    }
    out
}

/// HashToPoint's XOF stream as part of verify's environment: for every scripted chunk stream of C14's family (runs of
/// rejected chunks at four positions, many rejections spread out, periodic rejections, constant streams) the reference
/// computes c on that stream, a triple with squared norm exactly the bound (accept) and one above (reject) is solved
/// for it, and verify runs while the hooked XOF reader delivers the same stream.
fn scripted_hash_triples<V: Variant>(ctx: &mut Ctx, tier: Tier) {
    let n = V::N;
    let bound = sig_bound(n);
    let fam = super::c14::scripted_streams(n, tier.thorough());
    let salt = vec![0x45u8; 40];
    let msg = b"scripted stream".to_vec();
    let mut sm = salt.clone();
    sm.extend_from_slice(&msg);
    let mut s2 = vec![0i64; n];
    s2[0] = 1;
    let body = body_of(n, &s2).unwrap();
    let sig = encode_sig(n, &salt, &body);
    let (Some(sq_acc), Some(sq_rej)) = (squares(bound - 1), squares(bound)) else { machinery_error("C02: no four-square split of the bound") };
    let t = fam
        .par_iter()
        .map(|(name, chunks)| {
            let mut tl = Tally::default();
            let prefix: Vec<u8> = chunks.iter().flat_map(|v| [(v >> 8) as u8, (v & 0xff) as u8]).collect();
            let c = keccak::hash_to_point_on_stream(&prefix, &sm, n, None);
            for (sq, expect) in [(&sq_acc, true), (&sq_rej, false)] {
                let s1 = sparse(n, sq, 5);
                let Some(h) = solve_h(&c, &s1, &s2) else { continue };
                let norm = crate::refmodel::verify::norm_of(&c, &s2, &h);
                if (norm <= bound as i128) != expect {
                    machinery_error("C02: the reference norm on a scripted stream contradicts the construction");
                }
                tl.cases += 1;
                let pkb = keycodec::pk_encode(&h);
                falcon_rust::verif_hooks::install_xof_prefix(prefix.clone());
                let got = catch(|| -> Result<bool, String> {
                    let pk = V::pk_from_bytes(&pkb)?;
                    let sg = V::sig_from_bytes(&sig)?;
                    Ok(V::verify(&msg, &sg, &pk))
                });
                falcon_rust::verif_hooks::uninstall_xof_prefix();
                let case = || json!({"kind":"scripted-stream","variant":n,"stream":name});
                match got {
                    Ok(Ok(v)) if v == expect => {
                        if v {
                            tl.acc += 1
                        } else {
                            tl.rej_norm += 1
                        }
                    }
                    Ok(Ok(v)) => {
                        tl.nviol += 1;
                        let key = format!("verify:{}:scripted-stream:n={}:{}", if v { "accepts-invalid" } else { "rejects-valid" }, n, name.split(' ').take(2).collect::<Vec<_>>().join(" "));
                        let what = format!("{}::verify = {} but Algorithm 16 gives {} (squared norm {} against {}) when HashToPoint reads the XOF stream [{}]", V::name(), v, expect, norm, bound, name);
                        tl.found.entry(key.clone()).or_insert_with(|| found(key, what, case()));
                    }
                    Ok(Err(e)) | Err(e) => {
                        tl.nviol += 1;
                        let key = format!("verify:error:scripted-stream:n={}", n);
                        let what = format!("{}::verify failed ({}) when HashToPoint reads the XOF stream [{}]", V::name(), e, name);
                        tl.found.entry(key.clone()).or_insert_with(|| found(key, what, case()));
                    }
                }
            }
            tl
        })
        .reduce(Tally::default, reduce);
    if (t.acc == 0 || t.rej_norm == 0) && t.nviol == 0 {
        machinery_error("C02: the scripted-stream family produced only one verdict (vacuity guard)");
    }
    let mut part = Part::new(&format!("scripted_hash_streams_{}", n), &format!("{} scripted XOF chunk streams of C14's family x (squared norm = bound, bound + 1): c computed by the reference on the stream, h solved for s2 = 1 and a four-square s1, verify run while the hooked XOF reader delivers the stream", fam.len()));
    part.exhaustive = true;
    t.into_part(ctx, part);
}

fn run_triples<V: Variant>(ctx: &mut Ctx, name: &str, space: &str, triples: Vec<Triple>) {
    run_triples_g::<V>(ctx, name, space, triples, true)
}

fn run_triples_g<V: Variant>(ctx: &mut Ctx, name: &str, space: &str, triples: Vec<Triple>, need_both: bool) {
    let t = triples
        .par_iter()
        .map(|t| {
            let mut tl = Tally::default();
            judge::<V>(&mut tl, t);
            tl
        })
        .reduce(Tally::default, reduce);
    if need_both && t.cases > 50 && (t.acc == 0 || t.rej_norm + t.rej_enc == 0) {
        machinery_error("C02: a triple family produced only one verdict (vacuity guard)");
    }
    let mut part = Part::new(name, space);
    part.exhaustive = true;
    t.into_part(ctx, part);
}

fn window_triples<V: Variant>(ctx: &mut Ctx, dmax: usize, tailbits: usize) {
    // end-of-buffer windows through verify against the reference (honest public key)
    let n = V::N;
    let l = sig_len(n) - 41;
    let (_sk, pk) = crate::api::key::<V>(0);
    let pkb = V::pk_to_bytes(&pk);
    let mut jobs = vec![];
    for d in 0..=dmax {
        for r in 1..=3usize {
            jobs.push((d, r));
        }
    }
    let t = jobs
        .par_iter()
        .map(|&(d, r)| {
            let mut tl = Tally::default();
            for_each_tail(n, l, d, r, tailbits, |body| {
                let tr = Triple { n, msg: b"w".to_vec(), sig: encode_sig(n, &[7u8; 40], body), pk: pkb.clone(), expect: None, tag: format!("window:n={};d={},r={}", n, d, r) };
                judge::<V>(&mut tl, &tr);
            });
            tl
        })
        .reduce(Tally::default, reduce);
    let mut part = Part::new(
        &format!("end_of_buffer_windows_{}", n),
        &format!("verify vs Algorithm 16 on bodies from the end-of-buffer enumeration (d <= {}, r <= 3, 2^min(d,{}) tails x 2 fills) under an honest public key", dmax, tailbits),
    );
    part.exhaustive = true;
    t.into_part(ctx, part);
}

fn one_variant<V: Variant>(ctx: &mut Ctx, tier: Tier) {
    let n = V::N;
    let positions: Vec<usize> = if tier.thorough() { (0..n).collect() } else { vec![0, 1, n / 2, n - 1] };
    run_norm::<V>(
        ctx,
        &format!("norm_boundary_{}", n),
        &format!("msg in {{'', 'a', 'data1'}} x salt in {{00^40, FF^40, 00..27}} x s2 = a X^i, a in {{+-1,2,+-127,+-128,129,2047,2048,floor(beta),floor(beta)+1,12159}}, i in {} x prescribed squared norm T in {{1, B-1, B, B+1, B+10^6, 2^31, 2^32+1000}}, h solved so that s1 is a sparse vector with exactly the missing norm (entries <= 6144)", if tier.thorough() { "all n positions".to_string() } else { "{0,1,n/2,n-1}".to_string() }),
        norm_specs(n, &positions, false),
    );
    let pos2: Vec<usize> = if tier.thorough() { (0..n).step_by(7).collect() } else { vec![0, n - 1] };
    run_norm::<V>(ctx, &format!("norm_boundary_two_term_{}", n), "same with two-term s2 = a X^i +- 3 X^j (general ring inverse)", norm_specs(n, &pos2, true));
    if n == 1024 {
        // at n = 512 a single entry of magnitude 6144 already exceeds the bound (6144^2 > floor(beta^2))
        run_triples::<V>(ctx, &format!("centred_edge_{}", n), "s1[0] in {6144,-6144,6143,-6143} with total norm B-1, B, B+1", edge_triples(n));
    }
    run_triples_g::<V>(ctx, &format!("big_s2_{}", n), "s2 = a X^i with a in {+-6144, +-6145, +-8192, +-12159, +-12160, +-12288, +-12289, 12290, +-24578} (outside the centred range of Z_q), i in {0,1,n/2,n-1}, s1 small: the squared norm is over the decoded integers", big_s2_triples(n), false);
    run_triples::<V>(ctx, &format!("extreme_s1_{}", n), "s2 = 1 and h = c - v so that s1 = v, v in {+-6144, +-6143, +-1, 2048, -4096} on a support {every index, i = r mod m for m in {2,...,64} and every r, lower half, upper half}, 0 elsewhere: norms from n+1 up to the maximum n * 6144^2 + 1, overall and per stride class", extreme_s1_triples(n));
    run_triples::<V>(ctx, &format!("dense_{}", n), "dense short (s1,s2) of honest magnitude tuned to total norm B-1, B, B+1, B/2", dense_triples(n));
    scripted_hash_triples::<V>(ctx, tier);
    lookalike_key_histories::<V>(ctx);
    run_triples::<V>(ctx, &format!("run_alignment_{}", n), "s2 = +-(128 r + low) X^j for every unary run length r in 0..=95, low in {0,127}, j in 1..=8 (all eight cursor alignments), s1 = 0: accepted iff the square is within the bound", run_alignment_triples(n));
    run_triples::<V>(ctx, &format!("message_length_ladder_{}", n), &format!("messages of every length 0..={} and around 2^12 .. 2^18 (position-dependent content), s2 = +-X^(len mod n), total norm B and B+1", if tier.thorough() { 2100 } else { 520 }), length_triples(n, tier.thorough()));
    run_triples::<V>(ctx, &format!("malformed_{}", n), "otherwise acceptable signature with: negative zero, a set padding bit at each of the next 24 positions and the last bit, unary run of the last / a middle coefficient extended by 1/94/95/256/512, one coefficient short/extra, unterminated last coefficient", malformed_triples(n));
    if tier.thorough() {
        window_triples::<V>(ctx, 32, 12);
    } else {
        window_triples::<V>(ctx, 16, 8);
    }
}

pub fn run(tier: Tier) {
    let mut ctx = Ctx::new("C02", tier);
    one_variant::<V512>(&mut ctx, tier);
    one_variant::<V1024>(&mut ctx, tier);
    crate::history::differential(&mut ctx, "history_two_keys_verification", &["V512", "v512", "V1024", "v1024"], 2, &|_op, digest| { let _ = digest; if digest != "valid=true other_message=false corrupted=false" { Some("verify gave a wrong verdict".to_string()) } else { None } });
    crate::e5::run_part(&mut ctx, "verify");
    ctx.sample(json!({"n":512,"s2":"1*X^0","s1":"sparse with squared norm floor(beta^2)-1 = 34034725","expected":"accept (total = floor(beta^2))"}));
    ctx.sample(json!({"n":1024,"s2":"canonical body, last coefficient's unary run extended by 512 zeros","expected":"reject (value changes by 65536)"}));
    ctx.assume("compositional argument: C14 decides the hash, C07 the decoder, C11+C12 the transform pipeline for all inputs; the triples here pin down the glue (centred range, bound constant, comparison operator, accumulation width)");
    ctx.assume("reference = schoolbook Algorithm 16; cross-checked against PQClean crypto_sign_verify on every triple in the common domain (|s2_i| <= 2047, well-formed)");
    ctx.finish();
}

pub fn replay(case: &Value) -> Result<Option<String>, String> {
    if case.get("kind").and_then(|k| k.as_str()) == Some("scripted-stream") {
        return Err("re-run ./vf check C02 (the stream family is enumerated deterministically)".into());
    }
    if case.get("kind").and_then(|k| k.as_str()) .map(|k| k == "e5" || k == "e5-setup").unwrap_or(false) {
        return crate::e5::replay(case);
    }
    if case.get("kind").and_then(|k| k.as_str()) == Some("key-history") {
        return Err("re-run ./vf check C02 (the call histories are enumerated deterministically)".into());
    }
    if case.get("kind").and_then(|k| k.as_str()) == Some("history") {
        return crate::history::replay(case);
    }
    let variant = case.get("variant").and_then(|x| x.as_u64()).ok_or("variant")? as usize;
    let hx = |k: &str| case.get(k).and_then(|x| x.as_str()).map(unhex).ok_or(format!("missing {}", k));
    let t = Triple { n: variant, msg: hx("msg")?, sig: hx("sig")?, pk: hx("pk")?, expect: None, tag: "replay".into() };
    let mut tl = Tally::default();
    if variant == 512 {
        judge::<V512>(&mut tl, &t)
    } else {
        judge::<V1024>(&mut tl, &t)
    }
    Ok(tl.found.into_iter().next().map(|(_, f)| f.what))
}

pub fn diag_time() {
    let n = 512;
    {
        let mut cs = vec![];
        for mi in 0..3 {
            for si in 0..3 {
                let mut sm = salts()[si].clone();
                sm.extend_from_slice(MSGS[mi]);
                cs.push(keccak::hash_to_point(&sm, n, None));
            }
        }
        let specs = norm_specs(n, &[0, 1, n / 2, n - 1], false);
        let mut times: Vec<(u128, i64, i64)> = vec![];
        let t00 = std::time::Instant::now();
        for sp in &specs {
            let t0 = std::time::Instant::now();
            let _ = build_norm(n, sp, &cs);
            times.push((t0.elapsed().as_micros(), sp.a, sp.t));
        }
        println!("{} specs in {:?}", specs.len(), t00.elapsed());
        times.sort();
        println!("slowest: {:?}", &times[times.len() - 5..]);
    }
    let bound = sig_bound(n);
    for t in [1i64, bound - 1, bound, 1 << 31, (1 << 32) + 1000] {
        let t0 = std::time::Instant::now();
        let sq = squares(t - 1);
        println!("squares({}) -> {:?} entries in {:?}", t - 1, sq.map(|v| v.len()), t0.elapsed());
    }
    let c: Vec<i64> = (0..n as i64).collect();
    let mut s2 = vec![0i64; n];
    s2[3] = 5;
    let s1 = sparse(n, &[100, 50, 25], 11);
    let t0 = std::time::Instant::now();
    let h = solve_h(&c, &s1, &s2);
    println!("solve_h monomial {:?} {}", t0.elapsed(), h.is_some());
    let t0 = std::time::Instant::now();
    let h = solve_h(&c, &s1, &s2);
    println!("solve_h monomial again {:?} {}", t0.elapsed(), h.is_some());
    let t0 = std::time::Instant::now();
    let hh = h.unwrap();
    let e = keycodec::pk_encode(&hh);
    println!("pk_encode {:?} {}", t0.elapsed(), e.len());
    let t0 = std::time::Instant::now();
    let b = body_of(n, &s2);
    println!("body_of {:?} {}", t0.elapsed(), b.is_some());
}

//! Validation of the reference models against third sources. Run by `vf setup`.
pub fn run() -> i32 {
    0
}

//! Validation of the reference models against third sources (PQClean C code, vendored). Run by
//! `vf setup`; a failure here is a machinery failure and blocks every verdict.

use crate::pq;
use crate::refmodel::samplerz as rs;
use crate::refmodel::{codec, keccak, keycodec, sig_len, sigma_min, verify as refverify, SIGMA_MAX};

fn fail(msg: &str) -> i32 {
    println!("SELFTEST FAILED: {}", msg);
    1
}

fn pattern(len: usize, k: u64) -> Vec<u8> {
    (0..len).map(|i| ((i as u64).wrapping_mul(2654435761).wrapping_add(k.wrapping_mul(40503)) >> 7) as u8).collect()
}

pub fn run() -> i32 {
    let mut checks = 0u64;
    // 1. SHAKE-256
    for len in (0..300).step_by(7).chain([135, 136, 137, 271, 272, 273, 1000]) {
        let m = pattern(len, len as u64);
        for outlen in [1usize, 32, 135, 136, 137, 500] {
            checks += 1;
            if keccak::shake256(&m, outlen) != pq::shake256_c(&m, outlen) {
                return fail(&format!("SHAKE-256 differs from fips202.c at input length {} output length {}", len, outlen));
            }
        }
    }
    // 2. HashToPoint
    for len in [0usize, 1, 40, 41, 45, 136, 300] {
        for k in 0..8u64 {
            let m = pattern(len, k);
            checks += 2;
            let a: Vec<i64> = pq::f512::hash_to_point(&m).iter().map(|&x| x as i64).collect();
            if a != keccak::hash_to_point(&m, 512, None) {
                return fail("HashToPoint (512) differs from PQClean hash_to_point_vartime");
            }
            let a: Vec<i64> = pq::f1024::hash_to_point(&m).iter().map(|&x| x as i64).collect();
            if a != keccak::hash_to_point(&m, 1024, None) {
                return fail("HashToPoint (1024) differs from PQClean hash_to_point_vartime");
            }
        }
    }
    // 3. compression codec on the common domain |x| <= 2047
    for k in 0..40u64 {
        for n in [512usize, 1024] {
            let mag = [3i64, 130, 300, 700, 2047][(k % 5) as usize];
            let v: Vec<i64> = (0..n as u64).map(|i| (((i * 7919 + k * 104729) % (2 * mag as u64 + 1)) as i64) - mag).collect();
            let v16: Vec<i16> = v.iter().map(|&x| x as i16).collect();
            let l = sig_len(n) - 41;
            let ours = codec::compress(&v, l);
            let theirs = if n == 512 { pq::f512::comp_encode(&v16, l) } else { pq::f1024::comp_encode(&v16, l) };
            checks += 1;
            match (&ours, &theirs) {
                (None, None) => {}
                (Some(o), Some(t)) => {
                    if o[..t.len()] != t[..] || o[t.len()..].iter().any(|&b| b != 0) {
                        return fail("Algorithm 17 differs from PQClean comp_encode");
                    }
                    let back = if n == 512 { pq::f512::comp_decode(t) } else { pq::f1024::comp_decode(t) };
                    match back {
                        Some((x, used)) if used == t.len() && x == v16 => {}
                        _ => return fail("PQClean comp_decode does not invert comp_encode"),
                    }
                    if codec::decompress(o, n) != Some(v.clone()) {
                        return fail("Algorithm 18 does not invert Algorithm 17");
                    }
                }
                _ => return fail("Algorithm 17 and PQClean comp_encode disagree on whether the vector fits"),
            }
        }
    }
    // 4. key codecs
    for k in 0..8u64 {
        for n in [512usize, 1024] {
            let h: Vec<i64> = (0..n as u64).map(|i| ((i * 7907 + k * 31) % 12289) as i64).collect();
            let h16: Vec<u16> = h.iter().map(|&x| x as u16).collect();
            let ours = keycodec::pk_encode(&h);
            let theirs = if n == 512 { pq::f512::modq_encode(&h16) } else { pq::f1024::modq_encode(&h16) };
            checks += 1;
            if theirs.as_deref() != Some(&ours[1..]) {
                return fail("public-key codec differs from PQClean modq_encode");
            }
            // a field >= q must be rejected by both
            let mut bad = ours.clone();
            bad[1] = 0xff;
            bad[2] |= 0xfc;
            let pqdec = if n == 512 { pq::f512::modq_decode(&bad[1..]) } else { pq::f1024::modq_decode(&bad[1..]) };
            if keycodec::pk_decode(&bad, n).is_some() || pqdec.is_some() {
                return fail("a public-key field >= q is not rejected by both decoders");
            }
            let w = keycodec::fg_bits(n);
            let lim = (1i64 << (w - 1)) - 1;
            let f: Vec<i64> = (0..n as i64).map(|i| ((i * 5 + k as i64) % (2 * lim + 1)) - lim).collect();
            let g: Vec<i64> = (0..n as i64).map(|i| ((i * 11 + 3 * k as i64) % (2 * lim + 1)) - lim).collect();
            let cf: Vec<i64> = (0..n as i64).map(|i| ((i * 13 + k as i64) % 255) - 127).collect();
            let sk = keycodec::sk_encode(&f, &g, &cf).unwrap();
            let f8: Vec<i8> = f.iter().map(|&x| x as i8).collect();
            let g8: Vec<i8> = g.iter().map(|&x| x as i8).collect();
            let cf8: Vec<i8> = cf.iter().map(|&x| x as i8).collect();
            let enc = |x: &[i8], bits: u32| if n == 512 { pq::f512::trim_i8_encode(x, bits) } else { pq::f1024::trim_i8_encode(x, bits) };
            let mut theirs = vec![sk[0]];
            for (p, bits) in [(&f8, w as u32), (&g8, w as u32), (&cf8, 8u32)] {
                match enc(p, bits) {
                    Some(b) => theirs.extend_from_slice(&b),
                    None => return fail("PQClean trim_i8_encode failed"),
                }
            }
            checks += 1;
            if theirs != sk {
                return fail("secret-key codec differs from PQClean trim_i8_encode");
            }
            if keycodec::sk_decode(&sk, n) != Some((f.clone(), g.clone(), cf.clone())) {
                return fail("secret-key codec does not round trip");
            }
        }
    }
    // 5. verify on reference-made signatures (accept) and corruptions (reject)
    for k in 0..4u64 {
        let seed = format!("selftest-{}", k).into_bytes();
        if let Some((pk, sk)) = pq::f512::keypair(&seed) {
            let msg = pattern(33, k);
            if let Some(sig) = pq::f512::sign(&seed, &msg, &sk) {
                let h: Vec<i64> = keycodec::pk_decode(&pk, 512).unwrap();
                let ours = pq::pq_sig_to_rust(&sig, sig_len(512)).unwrap();
                checks += 2;
                if !refverify::verify(512, &msg, &ours[1..41], &ours[41..], &h).accepted() {
                    return fail("reference Algorithm 16 rejects a PQClean signature");
                }
                let mut bad = msg.clone();
                bad[0] ^= 1;
                if refverify::verify(512, &bad, &ours[1..41], &ours[41..], &h).accepted() || pq::f512::verify(&sig, &bad, &pk) {
                    return fail("a signature verifies for a different message");
                }
            } else {
                return fail("PQClean signing failed");
            }
        } else {
            return fail("PQClean key generation failed");
        }
    }
    // 6. RCDT and the sampler against PQClean's sampler on identical bytes
    for i in 0..18 {
        for (u, want) in [(rs::RCDT[i] - 1, i as i32 + 1), (rs::RCDT[i], i as i32)] {
            let mut b = rs::u_to_bytes(u);
            b.reverse(); // PQClean reads the 72-bit value little-endian
            checks += 1;
            if pq::f512::gaussian0(&b) != want || rs::base_sampler_u(u) != want as i64 {
                return fail(&format!("RCDT[{}] differs from PQClean's table", i));
            }
        }
    }
    let mus = [-91.9f64, -0.5, 0.0, 0.25, 0.999, 7.93, 300.4];
    // sigma' = sigma_min exactly (ccs = 1) is excluded from this comparison: PQClean's fpr_expm_p63 shifts
    // trunc(ccs * 2^63) left by one, which wraps to 0 for ccs = 1.0, a quirk the specification's
    // ApproxExp (floor(2^63 ccs), no shift) does not have; honest trees never have a leaf equal to sigma_min
    let sigmas = [sigma_min(512) * 1.000001, 1.5, 1.7, SIGMA_MAX];
    let mut lcg = 0x1234_5678_9abc_def0u64;
    for &mu in &mus {
        for &sg in &sigmas {
            for _case in 0..200 {
                // a stream of iterations from a fixed LCG (validation data, not exploration)
                let mut ours_iters: Vec<[u8; 17]> = vec![];
                let mut pq_stream: Vec<u8> = vec![];
                let mut result: Option<i64> = None;
                for _ in 0..20 {
                    let mut it = [0u8; 17];
                    for b in it.iter_mut() {
                        lcg = lcg.wrapping_mul(6364136223846793005).wrapping_add(1442695040888963407);
                        *b = (lcg >> 33) as u8;
                    }
                    // bias towards small z0 so that acceptance happens
                    it[0] = 0xff;
                    ours_iters.push(it);
                    let mut rev: Vec<u8> = it[..9].to_vec();
                    rev.reverse();
                    pq_stream.extend_from_slice(&rev);
                    pq_stream.push(it[9]);
                    // BerExp in PQClean is lazy: it reads bytes until the first difference
                    let z0 = rs::base_sampler(&it[..9].try_into().unwrap());
                    let b = (it[9] & 1) as i64;
                    let r = mu - mu.floor();
                    let x = rs::sampler_x(r, sg, z0, b);
                    let z = rs::ber_exp_threshold(x, sigma_min(512) * (1.0 / sg));
                    let mut used = 0;
                    for k in 0..7 {
                        used += 1;
                        if it[10 + k] != ((z >> (56 - 8 * k)) & 0xff) as u8 {
                            break;
                        }
                    }
                    pq_stream.extend_from_slice(&it[10..10 + used]);
                    match rs::sampler_step(mu, sg, sigma_min(512), &it) {
                        rs::Step::Return(v) => {
                            result = Some(v);
                            break;
                        }
                        rs::Step::Tie { .. } => {
                            result = None;
                            break;
                        }
                        rs::Step::Reject => {}
                    }
                }
                if let Some(want) = result {
                    checks += 1;
                    match pq::f512::sampler(mu, sg, sigma_min(512), &pq_stream) {
                        Some((got, used)) if got as i64 == want && used == pq_stream.len() => {}
                        other => {
                            for it in &ours_iters {
                                let z0 = rs::base_sampler(&it[..9].try_into().unwrap());
                                let b = (it[9] & 1) as i64;
                                let x = rs::sampler_x(mu - mu.floor(), sg, z0, b);
                                let z = rs::ber_exp_threshold(x, sigma_min(512) * (1.0 / sg));
                                println!("iter {:02x?} z0={} b={} x={} thr={:016x} step={:?}", it, z0, b, x, z, rs::sampler_step(mu, sg, sigma_min(512), it));
                            }
                            println!("pq stream {:02x?}", pq_stream);
                            return fail(&format!("SamplerZ reference ({}) differs from PQClean's sampler ({:?}) at mu={} sigma={}", want, other, mu, sg));
                        }
                    }
                }
            }
        }
    }
    println!("selftest ok: {} comparisons of the reference models with PQClean", checks);
    0
}

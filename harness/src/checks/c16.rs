//! C16 - keys and signatures interoperate with the reference implementation (PQClean, vendored,
//! deterministic randombytes). E1 over seeds x messages x four directions, including (salt, message)
//! pairs chosen so that HashToPoint's rejection threshold is hit.

use super::{found, Found};
use crate::api::{Variant, V1024, V512};
use crate::ctx::{catch, hex, machinery_error, Ctx, Part, Tier};
use crate::envrng::{Bounded, SIGN_DRAW_LIMIT};
use crate::pq;
use crate::refmodel::keccak::{hash_to_point, HtpStats};
use crate::refmodel::sig_len;
use crate::util::{seed_bytes, with_bounded_thread_rng};
use rand::{RngCore, SeedableRng};
use rayon::prelude::*;
use serde_json::{json, Value};
use std::collections::BTreeMap;

pub trait Pq: Variant {
    fn pq_keypair(seed: &[u8]) -> Option<(Vec<u8>, Vec<u8>)>;
    fn pq_sign(seed: &[u8], msg: &[u8], sk: &[u8]) -> Option<Vec<u8>>;
    fn pq_verify(sig: &[u8], msg: &[u8], pk: &[u8]) -> bool;
}
impl Pq for V512 {
    fn pq_keypair(seed: &[u8]) -> Option<(Vec<u8>, Vec<u8>)> {
        pq::f512::keypair(seed)
    }
    fn pq_sign(seed: &[u8], msg: &[u8], sk: &[u8]) -> Option<Vec<u8>> {
        pq::f512::sign(seed, msg, sk)
    }
    fn pq_verify(sig: &[u8], msg: &[u8], pk: &[u8]) -> bool {
        pq::f512::verify(sig, msg, pk)
    }
}
impl Pq for V1024 {
    fn pq_keypair(seed: &[u8]) -> Option<(Vec<u8>, Vec<u8>)> {
        pq::f1024::keypair(seed)
    }
    fn pq_sign(seed: &[u8], msg: &[u8], sk: &[u8]) -> Option<Vec<u8>> {
        pq::f1024::sign(seed, msg, sk)
    }
    fn pq_verify(sig: &[u8], msg: &[u8], pk: &[u8]) -> bool {
        pq::f1024::verify(sig, msg, pk)
    }
}

#[derive(Default)]
struct Tally {
    cases: u64,
    calls: u64,
    outcomes: BTreeMap<String, u64>,
    found: BTreeMap<String, Found>,
    nviol: u64,
    threshold_hits: u64,
}

fn reduce(mut a: Tally, b: Tally) -> Tally {
    a.cases += b.cases;
    a.calls += b.calls;
    a.nviol += b.nviol;
    a.threshold_hits += b.threshold_hits;
    for (k, v) in b.outcomes {
        *a.outcomes.entry(k).or_insert(0) += v;
    }
    for (k, v) in b.found {
        a.found.entry(k).or_insert(v);
    }
    a
}

impl Tally {
    fn viol(&mut self, key: String, what: String, case: Value) {
        self.nviol += 1;
        self.found.entry(key.clone()).or_insert_with(|| found(key, what, case));
    }
    fn out(&mut self, o: &str) {
        *self.outcomes.entry(o.to_string()).or_insert(0) += 1;
    }
}

fn hits_threshold(n: usize, salt: &[u8], msg: &[u8]) -> bool {
    let mut sm = salt.to_vec();
    sm.extend_from_slice(msg);
    let mut st = HtpStats::default();
    hash_to_point(&sm, n, Some(&mut st));
    st.at_61445 > 0
}

/// the salt `sign` will draw from fixed stream `stream` (first 40 bytes of the environment)
fn salt_of_stream(stream: u64) -> [u8; 40] {
    let mut r = rand_chacha::ChaCha20Rng::seed_from_u64(0x5eed_0000_0000_0000 ^ stream);
    let mut s = [0u8; 40];
    r.fill_bytes(&mut s);
    s
}

fn sign_with_stream<V: Variant>(stream: u64, msg: &[u8], sk: &V::Sk) -> Result<V::Sig, String> {
    catch(|| crate::util::with_stream(stream, || V::sign(msg, sk)))
}

const MSGS: [&[u8]; 3] = [b"", b"data1", &[0xAA; 96]];

fn rust_key_case<V: Pq>(t: &mut Tally, seed: u64, streams: &[u64]) {
    let n = V::N;
    let (sk, pk) = match catch(|| V::keygen(seed_bytes(seed))) {
        Ok(x) => x,
        Err(e) => {
            t.viol(format!("keygen-panic:n={}", n), format!("keygen panicked: {}", e), json!({"kind":"rust-key","variant":n,"seed":seed}));
            return;
        }
    };
    let skb = V::sk_to_bytes(&sk);
    let pkb = V::pk_to_bytes(&pk);
    let case = |what: &str| json!({"kind":"rust-key","variant":n,"seed":seed,"direction":what});
    for (mi, msg) in MSGS.iter().enumerate() {
        // (1) the reference signs with our secret key; both sides verify under our public key bytes
        t.cases += 1;
        t.calls += 3;
        // choose the reference signer's randomness so that the threshold of HashToPoint is hit when possible
        let mut pqseed = format!("c16-pq-sign-{}-{}-{}", n, seed, mi).into_bytes();
        for k in 0..400u32 {
            let mut cand = pqseed.clone();
            cand.extend_from_slice(&k.to_le_bytes());
            if let Some(s) = V::pq_sign(&cand, msg, &skb) {
                if hits_threshold(n, &s[1..41], msg) {
                    pqseed = cand;
                    t.threshold_hits += 1;
                    break;
                }
            } else {
                break;
            }
            if k >= 40 && mi != 1 {
                break;
            }
        }
        match V::pq_sign(&pqseed, msg, &skb) {
            None => t.viol(format!("reference-rejects-our-secret-key:n={},seed={}", n, seed), format!("{}: the reference implementation cannot sign with the secret key bytes of keygen(LE64({})) (decoding or completing the key fails)", V::name(), seed), case("reference signs with our key")),
            Some(ps) => {
                if !V::pq_verify(&ps, msg, &pkb) {
                    t.viol(format!("reference-rejects-our-public-key:n={},seed={}", n, seed), format!("{}: a reference signature made with our secret key does not verify in the reference under our public key bytes (seed {})", V::name(), seed), case("reference verifies under our pk"));
                }
                match pq::pq_sig_to_rust(&ps, sig_len(n)) {
                    Some(rs) => match catch(|| V::sig_from_bytes(&rs).map(|s| V::verify(msg, &s, &pk))) {
                        Ok(Ok(true)) => t.out("reference signature (our key) verifies here"),
                        other => t.viol(format!("we-reject-reference-signature:n={}", n), format!("{}: a reference signature (padded to {} bytes, header relabelled) made with our exported key is not accepted by verify: {:?} (seed {}, message {})", V::name(), sig_len(n), other, seed, mi), case("we verify reference signature")),
                    },
                    None => t.viol(format!("reference-signature-too-long:n={}", n), "reference signature does not fit the fixed length".to_string(), case("reframe")),
                }
            }
        }
        // (2) our signatures verify in the reference
        for (si, &st) in streams.iter().enumerate() {
            t.cases += 1;
            t.calls += 2;
            // pick a stream whose salt makes the hash hit the threshold for the middle message
            let mut stream = st;
            if mi == 1 {
                for k in 0..400u64 {
                    if hits_threshold(n, &salt_of_stream(st + 1000 * k), msg) {
                        stream = st + 1000 * k;
                        t.threshold_hits += 1;
                        break;
                    }
                }
            }
            let r = if si == 0 && mi == 0 { catch(|| with_bounded_thread_rng(|| V::sign(msg, &sk))) } else { sign_with_stream::<V>(stream, msg, &sk) };
            match r {
                Ok(sig) => {
                    let ours = V::sig_to_bytes(&sig);
                    let theirs = pq::rust_sig_to_pq(&ours);
                    if V::pq_verify(&theirs, msg, &pkb) {
                        t.out("our signature verifies in the reference");
                    } else {
                        t.viol(format!("reference-rejects-our-signature:n={}", n), format!("{}: our signature (header relabelled, zero padding stripped) is rejected by the reference verifier under our public key bytes (seed {}, message {}, stream {})", V::name(), seed, mi, stream), json!({"kind":"rust-sig","variant":n,"seed":seed,"msg":mi,"stream":stream,"sig":hex(&ours)}));
                    }
                }
                Err(e) => t.viol(format!("sign-fails:n={}", n), format!("sign failed: {}", e), case("we sign")),
            }
        }
    }
}

fn pq_key_case<V: Pq>(t: &mut Tally, idx: u64) {
    let n = V::N;
    let kseed = format!("c16-pq-keypair-{}-{}", n, idx).into_bytes();
    let Some((pkb, skb)) = V::pq_keypair(&kseed) else {
        machinery_error("C16: reference key generation failed");
    };
    let case = |what: &str| json!({"kind":"pq-key","variant":n,"index":idx,"direction":what});
    t.cases += 1;
    t.calls += 4;
    // (3) we decode the reference's keys and re-encode them byte-identically
    let pk = match catch(|| V::pk_from_bytes(&pkb)) {
        Ok(Ok(pk)) => {
            if V::pk_to_bytes(&pk) != pkb {
                t.viol(format!("pk-reencode:n={}", n), format!("{}: a reference public key decodes but re-encodes differently (reference key {})", V::name(), idx), case("pk"));
            }
            pk
        }
        other => {
            t.viol(format!("we-reject-reference-pk:n={}", n), format!("{}: PublicKey::from_bytes rejects a reference public key (key {}): {:?}", V::name(), idx, other.map(|r| r.map(|_| ()))), case("pk"));
            return;
        }
    };
    let sk = match catch(|| V::sk_from_bytes(&skb)) {
        Ok(Ok(sk)) => {
            if V::sk_to_bytes(&sk) != skb {
                t.viol(format!("sk-reencode:n={}", n), format!("{}: a reference secret key decodes but re-encodes differently (reference key {})", V::name(), idx), case("sk"));
            }
            sk
        }
        other => {
            t.viol(format!("we-reject-reference-sk:n={}", n), format!("{}: SecretKey::from_bytes rejects a reference secret key (key {}): {:?}", V::name(), idx, other.map(|r| r.map(|_| ()))), case("sk"));
            return;
        }
    };
    // the public key we derive from the imported secret key is the reference's
    if V::pk_to_bytes(&V::pk_from_sk(&sk)) != pkb {
        t.viol(format!("derived-pk-differs:n={}", n), format!("{}: the public key derived from an imported reference secret key differs from the reference's public key (key {})", V::name(), idx), case("derived pk"));
    }
    for (mi, msg) in MSGS.iter().enumerate() {
        t.cases += 1;
        t.calls += 4;
        // we sign with the imported key, the reference verifies
        match sign_with_stream::<V>(40 + mi as u64, msg, &sk) {
            Ok(sig) => {
                let ours = V::sig_to_bytes(&sig);
                if V::pq_verify(&pq::rust_sig_to_pq(&ours), msg, &pkb) {
                    t.out("imported key: our signature verifies in the reference");
                } else {
                    t.viol(format!("reference-rejects-our-signature-imported-key:n={}", n), format!("{}: a signature made here with an imported reference key is rejected by the reference (key {}, message {})", V::name(), idx, mi), case("we sign, reference verifies"));
                }
            }
            Err(e) => t.viol(format!("sign-fails-imported-key:n={}", n), format!("{}: signing with an imported reference key failed (key {}): {}", V::name(), idx, e), case("we sign")),
        }
        // the reference signs, we verify
        let sseed = format!("c16-pq-sign2-{}-{}-{}", n, idx, mi).into_bytes();
        match V::pq_sign(&sseed, msg, &skb) {
            Some(ps) => match pq::pq_sig_to_rust(&ps, sig_len(n)).map(|rs| catch(|| V::sig_from_bytes(&rs).map(|s| V::verify(msg, &s, &pk)))) {
                Some(Ok(Ok(true))) => t.out("reference key: reference signature verifies here"),
                other => t.viol(format!("we-reject-reference-signature-reference-key:n={}", n), format!("{}: a reference signature under a reference key is not accepted here: {:?} (key {}, message {})", V::name(), other, idx, mi), case("reference signs, we verify")),
            },
            None => machinery_error("C16: reference signing failed with its own key"),
        }
    }
}

/// (5) signatures whose s2 has a large coefficient as the reference would encode it (its compressor
/// admits magnitudes up to 2047): engineered triples (s2 = a X^i, s1 small, h solved), body produced
/// by the reference's comp_encode; the reference verifier and ours must both accept.
fn large_coefficient_part<V: Pq>(ctx: &mut Ctx) {
    let n = V::N;
    let salt = vec![0x44u8; 40];
    let msg = b"large coefficient".to_vec();
    let mut sm = salt.clone();
    sm.extend_from_slice(&msg);
    let c = hash_to_point(&sm, n, None);
    let mut part = Part::new(&format!("reference_encoded_large_coefficients_{}", n), "s2 = a X^i for a in {+-127, +-128, +-895, +-896, +-897, +-1023, +-1024, +-2047} and i in {0, 1, n/2, n-1}, s1 small, public key solved so that the pair is a valid signature; the compressed body comes from the reference's comp_encode; the reference verifier and ours must accept");
    for a in [127i64, -127, 128, -128, 895, -895, 896, -896, 897, -897, 1023, -1023, 1024, -1024, 2047, -2047] {
        for i in [0usize, 1, n / 2, n - 1] {
            let mut s2 = vec![0i64; n];
            s2[i] = a;
            let s1 = super::c02::sparse(n, &[9, 4, 2], (i + 1) % n);
            let Some(h) = super::c02::solve_h(&c, &s1, &s2) else { continue };
            let pkb = crate::refmodel::keycodec::pk_encode(&h);
            let s2_16: Vec<i16> = s2.iter().map(|&x| x as i16).collect();
            let body = if n == 512 { pq::f512::comp_encode(&s2_16, sig_len(n) - 41) } else { pq::f1024::comp_encode(&s2_16, sig_len(n) - 41) };
            let Some(body) = body else { continue };
            let mut pqsig = vec![0x30 | crate::refmodel::keycodec::logn(n)];
            pqsig.extend_from_slice(&salt);
            pqsig.extend_from_slice(&body);
            part.states += 1;
            part.transitions += 2;
            part.validated += 1;
            if !V::pq_verify(&pqsig, &msg, &pkb) {
                machinery_error("C16: the reference rejects an engineered valid signature");
            }
            let ours = pq::pq_sig_to_rust(&pqsig, sig_len(n)).unwrap();
            let r = catch(|| {
                let pk = V::pk_from_bytes(&pkb).map_err(|e| format!("pk: {}", e))?;
                let sig = V::sig_from_bytes(&ours).map_err(|e| format!("sig: {}", e))?;
                Ok::<bool, String>(V::verify(&msg, &sig, &pk))
            });
            match r {
                Ok(Ok(true)) => part.outcome("accepted by both".to_string()),
                other => ctx.violation(
                    format!("we-reject-reference-encoded-signature:n={},|a|={}", n, a.abs()),
                    format!("{}: a valid signature whose s2 has the coefficient {} at X^{}, encoded by the reference's compressor, is accepted by the reference verifier but not here: {:?}", V::name(), a, i, other),
                    json!({"kind":"large-coefficient","variant":n,"a":a,"i":i}),
                ),
            }
        }
    }
    part.exhaustive = true;
    ctx.add_part(part);
}

/// (4') both verifiers on signatures whose squared norm is exactly at, one below and one above the bound:
/// the reference accepts `<= floor(beta^2)`; whatever it accepts must be accepted here and vice versa.
fn norm_boundary_part<V: Pq>(ctx: &mut Ctx) {
    let n = V::N;
    let bound = crate::refmodel::sig_bound(n);
    let mut part = Part::new(&format!("both_verifiers_at_the_norm_bound_{}", n), "engineered valid-format signatures (s2 = a X^i for a in {1, -2, 127, -128, 2047}, i in {0, n-1}; s1 a sum of few squares placed sparsely; public key solved) with squared norm T in {bound-1, bound, bound+1} x 2 (salt, message) pairs: the reference verifier's verdict (accept iff T <= bound) and ours must be the same");
    let mut verdicts = std::collections::BTreeSet::new();
    for (salt, msg) in [(vec![0x16u8; 40], b"norm boundary".to_vec()), ((0u8..40).collect::<Vec<u8>>(), Vec::new())] {
        let mut sm = salt.clone();
        sm.extend_from_slice(&msg);
        let c = hash_to_point(&sm, n, None);
        for a in [1i64, -2, 127, -128, 2047] {
            for i in [0usize, n - 1] {
                for t in [bound - 1, bound, bound + 1] {
                    let mut s2 = vec![0i64; n];
                    s2[i] = a;
                    let Some(sq) = super::c02::squares(t - a * a) else { continue };
                    if sq.len() * 3 >= n {
                        continue;
                    }
                    let s1 = super::c02::sparse(n, &sq, (i + 1) % n);
                    let Some(h) = super::c02::solve_h(&c, &s1, &s2) else { continue };
                    let Some(body) = crate::refmodel::codec::compress(&s2, sig_len(n) - 41) else { continue };
                    let pkb = crate::refmodel::keycodec::pk_encode(&h);
                    let ours = super::c02::encode_sig(n, &salt, &body);
                    let pv = V::pq_verify(&pq::rust_sig_to_pq(&ours), &msg, &pkb);
                    if pv != (t <= bound) {
                        machinery_error("C16: the reference verifier's verdict contradicts the constructed norm");
                    }
                    part.states += 1;
                    part.transitions += 2;
                    part.validated += 1;
                    let r = catch(|| {
                        let pk = V::pk_from_bytes(&pkb).map_err(|e| format!("pk: {}", e))?;
                        let sig = V::sig_from_bytes(&ours).map_err(|e| format!("sig: {}", e))?;
                        Ok::<bool, String>(V::verify(&msg, &sig, &pk))
                    });
                    verdicts.insert(pv);
                    match r {
                        Ok(Ok(v)) if v == pv => part.outcome(format!("T - bound = {}: both {}", t - bound, if v { "accept" } else { "reject" })),
                        other => ctx.violation(
                            format!("verifiers-disagree-at-norm-bound:n={},T-bound={}", n, t - bound),
                            format!("{}: a signature of squared norm bound{:+} (s2 = {} X^{}) is {} by the reference verifier but here: {:?}", V::name(), t - bound, a, i, if pv { "accepted" } else { "rejected" }, other),
                            json!({"kind":"norm-boundary","variant":n,"a":a,"i":i,"T_minus_bound":t - bound}),
                        ),
                    }
                }
            }
        }
    }
    if verdicts.len() < 2 {
        machinery_error("C16: the norm-boundary family produced only one reference verdict (vacuity guard)");
    }
    part.exhaustive = true;
    ctx.add_part(part);
}

/// both directions over a ladder of message lengths with one of our keys
fn length_ladder_part<V: Pq>(ctx: &mut Ctx, tier: Tier) {
    let n = V::N;
    let seed = ctx.seed.wrapping_mul(4096);
    let (sk, pk) = V::keygen(seed_bytes(seed));
    let (skb, pkb) = (V::sk_to_bytes(&sk), V::pk_to_bytes(&pk));
    let top: usize = if tier.thorough() { 1100 } else { 300 };
    let mut lens: Vec<usize> = (0..=top).collect();
    lens.extend([471, 472, 473, 511, 512, 513, 1000]);
    for k in [12usize, 14, 16, 18] {
        lens.extend([(1 << k) - 41, (1 << k) - 40, 1 << k, (1 << k) + 1]);
    }
    lens.sort();
    lens.dedup();
    let t = lens
        .par_iter()
        .map(|&l| {
            let mut t = Tally::default();
            let msg: Vec<u8> = (0..l).map(|i| (i as u32).wrapping_mul(2654435761).rotate_left(5) as u8).collect();
            let case = |what: &str| json!({"kind":"length","variant":n,"seed":seed,"len":l,"direction":what});
            t.cases += 2;
            t.calls += 4;
            match sign_with_stream::<V>(30, &msg, &sk) {
                Ok(sig) => {
                    if V::pq_verify(&pq::rust_sig_to_pq(&V::sig_to_bytes(&sig)), &msg, &pkb) {
                        t.out("our signature verifies in the reference");
                    } else {
                        t.viol(format!("reference-rejects-our-signature:n={}:by-length", n), format!("{}: our signature over a message of {} bytes is rejected by the reference verifier", V::name(), l), case("we sign, reference verifies"));
                    }
                }
                Err(e) => t.viol(format!("sign-fails:n={}:by-length", n), format!("sign failed on a message of {} bytes: {}", l, e), case("we sign")),
            }
            let sseed = format!("c16-length-{}-{}", n, l).into_bytes();
            match V::pq_sign(&sseed, &msg, &skb) {
                Some(ps) => match pq::pq_sig_to_rust(&ps, sig_len(n)).map(|rs| catch(|| V::sig_from_bytes(&rs).map(|s| V::verify(&msg, &s, &pk)))) {
                    Some(Ok(Ok(true))) => t.out("reference signature (our key) verifies here"),
                    other => t.viol(format!("we-reject-reference-signature:n={}:by-length", n), format!("{}: a reference signature over a message of {} bytes is not accepted here: {:?}", V::name(), l, other), case("reference signs, we verify")),
                },
                None => t.viol(format!("reference-rejects-our-secret-key:n={},seed={}", n, seed), format!("{}: the reference cannot sign with our key bytes (seed {})", V::name(), seed), case("reference signs")),
            }
            t
        })
        .reduce(Tally::default, reduce);
    let mut part = Part::new(&format!("message_length_ladder_{}", n), &format!("key of seed LE64({}) x {} message lengths (every length 0..={}, 471..473, 511..513, 1000, around 2^12 .. 2^18; position-dependent content): our signature verifies in the reference and the reference's signature verifies here", seed, lens.len(), top));
    part.states = t.cases;
    part.transitions = t.calls;
    part.validated = t.cases;
    part.exhaustive = true;
    for (o, c) in &t.outcomes {
        part.outcome(format!("{} x{}", o, c));
    }
    for (_, f) in t.found {
        ctx.violation(f.key, f.what, f.case);
    }
    ctx.add_part(part);
}

/// our signatures at the edge of the fixed-size body (0..8 unused bits, or a first attempt that did not fit and
/// was retried) must be accepted by the reference like any other
fn tight_fit_part<V: Pq>(ctx: &mut Ctx) {
    let n = V::N;
    let (sk, pk) = crate::api::key::<V>(0);
    let pkb = V::pk_to_bytes(&pk);
    let (fit, retry) = crate::util::tight_fit_streams();
    let mut part = Part::new(&format!("tight_fit_signatures_{}", n), "signer streams chosen so that the compressed s2 leaves 0..8 bits of the body unused, and streams whose first attempt overshoots the body (compression retry): our signature, relabelled with padding stripped, verifies in the reference");
    for k in fit.into_iter().chain(retry) {
        part.states += 1;
        part.transitions += 2;
        part.validated += 1;
        let _ = falcon_rust::verif_hooks::take_loop_counters();
        match catch(|| crate::util::with_stream(1_000_000 + k, || V::sign(b"exact fit", &sk))) {
            Ok(sig) => {
                let retried = falcon_rust::verif_hooks::take_loop_counters().1 > 1;
                let ours = V::sig_to_bytes(&sig);
                if V::pq_verify(&pq::rust_sig_to_pq(&ours), b"exact fit", &pkb) {
                    part.outcome(if retried { "after a compression retry: verifies in the reference".to_string() } else { "verifies in the reference".to_string() });
                } else {
                    ctx.violation(format!("reference-rejects-our-signature:n={}:tight-fit", n), format!("{}: our signature made with signer stream {} ({}) is rejected by the reference verifier", V::name(), k, if retried { "compression retried" } else { "body filled to the last byte" }), json!({"kind":"tight","variant":n,"stream":k}));
                }
            }
            Err(e) => ctx.violation(format!("sign-fails:n={}:tight-fit", n), format!("sign failed: {}", e), json!({"kind":"tight","variant":n,"stream":k})),
        }
    }
    part.exhaustive = true;
    ctx.add_part(part);
}

/// both interop directions along a history of messages of shrinking and growing length on ONE thread (buffers that
/// only grow, memos of the last hashed input)
fn message_history_part<V: Pq>(ctx: &mut Ctx) {
    let n = V::N;
    let (sk, pk) = crate::api::key::<V>(0);
    let (skb, pkb) = (V::sk_to_bytes(&sk), V::pk_to_bytes(&pk));
    let msgs: Vec<Vec<u8>> = vec![vec![0x61u8; 600], vec![], b"data1".to_vec(), vec![0x62u8; 2000], b"a".to_vec(), vec![0x61u8; 600], b"data1".to_vec()];
    let mut part = Part::new(&format!("message_history_{}", n), "messages of 600, 0, 5, 2000, 1, 600, 5 bytes in this order on one fresh thread: at every step our signature verifies in the reference and the reference's signature (same key) verifies here");
    let ms = msgs.clone();
    let pkb2 = pkb.clone();
    let r = crate::sched::on_fresh_thread(move || {
        let mut out: Vec<(bool, Option<bool>)> = vec![];
        for (i, m) in ms.iter().enumerate() {
            let ours = V::sig_to_bytes(&crate::util::with_stream(33 + i as u64, || V::sign(m, &sk)));
            let a = V::pq_verify(&pq::rust_sig_to_pq(&ours), m, &pkb2);
            let sseed = format!("c16-history-{}-{}", n, i).into_bytes();
            let b = V::pq_sign(&sseed, m, &skb).and_then(|ps| pq::pq_sig_to_rust(&ps, sig_len(n))).and_then(|rs| V::sig_from_bytes(&rs).ok()).map(|s| V::verify(m, &s, &pk));
            out.push((a, b));
        }
        out
    });
    match r {
        Err(e) => ctx.violation(format!("sign-or-verify-panic:n={}:message-history", n), format!("panic in the message history: {}", e), json!({"kind":"message-history","variant":n})),
        Ok(v) => {
            for (i, (a, b)) in v.iter().enumerate() {
                part.states += 1;
                part.transitions += 4;
                part.validated += 1;
                if !a {
                    ctx.violation(format!("reference-rejects-our-signature:n={}:message-history", n), format!("{}: step {} of the message history (a message of {} bytes after messages of other lengths on the same thread): our signature is rejected by the reference verifier", V::name(), i + 1, msgs[i].len()), json!({"kind":"message-history","variant":n,"step":i}));
                }
                if *b != Some(true) {
                    ctx.violation(format!("we-reject-reference-signature:n={}:message-history", n), format!("{}: step {} of the message history (a message of {} bytes after messages of other lengths on the same thread): the reference's signature is not accepted here ({:?})", V::name(), i + 1, msgs[i].len(), b), json!({"kind":"message-history","variant":n,"step":i}));
                }
            }
        }
    }
    part.exhaustive = true;
    part.outcome("both directions agree at every step".to_string());
    ctx.add_part(part);
}

fn one_variant<V: Pq>(ctx: &mut Ctx, tier: Tier) {
    message_history_part::<V>(ctx);
    if V::N == 1024 {
        tight_fit_part::<V>(ctx);
    }
    large_coefficient_part::<V>(ctx);
    norm_boundary_part::<V>(ctx);
    length_ladder_part::<V>(ctx, tier);
    let n = V::N;
    let seeds = crate::util::seed_window(n, tier.thorough(), ctx.seed);
    let seeds: Vec<u64> = if tier.thorough() { seeds.into_iter().take(if n == 512 { 48 } else { 12 }).chain(crate::util::seed_window(n, false, 0).into_iter().rev().take(1)).collect() } else { seeds.into_iter().rev().take(if n == 512 { 4 } else { 2 }).collect() };
    // keys whose public polynomial has a coefficient 0 or q-1 (the ends of the 14-bit field's valid range)
    let mut seeds = seeds;
    for s in crate::util::pk_edge_seeds(n).into_iter().take(if tier.thorough() { 4 } else { 2 }) {
        if !seeds.contains(&s) {
            seeds.push(s);
        }
    }
    let streams: Vec<u64> = vec![20, 21];
    let t = seeds
        .par_iter()
        .map(|&s| {
            let mut t = Tally::default();
            rust_key_case::<V>(&mut t, s, &streams);
            t
        })
        .reduce(Tally::default, reduce);
    let mut part = Part::new(
        &format!("our_keys_{}", n),
        &format!("seeds {:?} x messages {{'', 'data1', 96 x AA}}: (1) the reference (PQClean, deterministic randombytes) signs with our secret-key bytes, its signature verifies in the reference under our public-key bytes and, padded and relabelled, here; (2) our signatures (production RNG and 2 fixed streams), relabelled with padding stripped, verify in the reference. For 'data1' the signer randomness is searched so that HashToPoint(salt||msg) meets the rejection threshold 61445", seeds),
    );
    part.states = t.cases;
    part.transitions = t.calls;
    part.validated = t.cases;
    part.exhaustive = true;
    part.set("salt_message_pairs_hitting_the_hash_threshold", json!(t.threshold_hits));
    for (o, c) in &t.outcomes {
        part.outcome(format!("{} x{}", o, c));
    }
    if t.threshold_hits == 0 {
        machinery_error("C16: no (salt, message) pair hit the HashToPoint threshold (vacuity guard)");
    }
    for (_, f) in t.found {
        ctx.violation(f.key, f.what, f.case);
    }
    ctx.add_part(part);

    let nk: u64 = match (n, tier.thorough()) {
        (512, false) => 4,
        (512, true) => 16,
        (_, false) => 2,
        (_, true) => 6,
    };
    let t = (0..nk)
        .into_par_iter()
        .map(|i| {
            let mut t = Tally::default();
            pq_key_case::<V>(&mut t, i);
            t
        })
        .reduce(Tally::default, reduce);
    let mut part = Part::new(
        &format!("reference_keys_{}", n),
        &format!("{} reference key pairs (deterministic seeds) x 3 messages: (3) our from_bytes accepts both keys and re-encodes them byte-identically, the public key derived from the imported secret key is the reference's; we sign with the imported key and the reference verifies; the reference signs and we verify", nk),
    );
    part.states = t.cases;
    part.transitions = t.calls;
    part.validated = t.cases;
    part.exhaustive = true;
    for (o, c) in &t.outcomes {
        part.outcome(format!("{} x{}", o, c));
    }
    for (_, f) in t.found {
        ctx.violation(f.key, f.what, f.case);
    }
    ctx.add_part(part);
}

pub fn run(tier: Tier) {
    let mut ctx = Ctx::new("C16", tier);
    let _ = Bounded::new(rand::thread_rng(), SIGN_DRAW_LIMIT);
    one_variant::<V512>(&mut ctx, tier);
    one_variant::<V1024>(&mut ctx, tier);
    crate::e5::run_part(&mut ctx, "sign");
    ctx.sample(json!({"direction":"our signature -> reference","reframing":"header 0x59 -> 0x39 (0x5a -> 0x3a), trailing zero bytes of the fixed-length body stripped"}));
    ctx.assume("reference = PQClean 'clean' Falcon-512/1024 as vendored from pqcrypto-falcon 0.3.0, linked with a deterministic randombytes (SHAKE256 counter stream) so that reference key generation and signing are replayable");
    ctx.assume("direction (4) of the plan (both verifiers on engineered triples) is part of C02, where PQClean's verdict is compared on every triple in the common domain");
    ctx.finish();
}

pub fn replay(case: &Value) -> Result<Option<String>, String> {
    let kind = case.get("kind").and_then(|k| k.as_str()).ok_or("no kind")?;
    if kind == "e5" || kind == "e5-setup" {
        return crate::e5::replay(case);
    }
    let variant = case.get("variant").and_then(|x| x.as_u64()).ok_or("variant")?;
    let mut t = Tally::default();
    match kind {
        "rust-key" | "rust-sig" => {
            let seed = case.get("seed").and_then(|x| x.as_u64()).ok_or("seed")?;
            if variant == 512 {
                rust_key_case::<V512>(&mut t, seed, &[20, 21])
            } else {
                rust_key_case::<V1024>(&mut t, seed, &[20, 21])
            }
        }
        "pq-key" => {
            let idx = case.get("index").and_then(|x| x.as_u64()).ok_or("index")?;
            if variant == 512 {
                pq_key_case::<V512>(&mut t, idx)
            } else {
                pq_key_case::<V1024>(&mut t, idx)
            }
        }
        "large-coefficient" | "norm-boundary" | "length" | "tight" | "message-history" => return Err("re-run ./vf check C16 (the family is enumerated deterministically)".into()),
        _ => return Err(format!("unknown kind {}", kind)),
    }
    Ok(t.found.into_iter().next().map(|(_, f)| f.what))
}

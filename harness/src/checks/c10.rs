//! C10 - signatures are spherical Gaussian. A distributional statement cannot be decided by
//! enumeration; what is decided here are per-execution invariants that, with C09 (every sampler call
//! follows D_{Z,c,sigma'}), imply it by the Klein/GPV nearest-plane theorem:
//!  I1 the tree is the LDL* tree of the secret basis: leaf_k = sigma / ||b~_k|| (dense Gram-Schmidt);
//!  I2 trace conformance of ffSampling: every sampler call gets the nearest-plane centre of the dense
//!     reference recursion, its width is its leaf, its result is the specification's SamplerZ on the
//!     bytes handed out, and the emitted vector is target - sum z_k b_k;
//!  I3 the emitted vector is within the bound.
//! Production size: keys x messages x environments; small scope (n = 2, 4): all outcome sequences.

use super::diag::leaves_of;
use super::{found, Found};
use crate::api::{Variant, V1024, V512};
use crate::ctx::{catch, hex, machinery_error, Ctx, Part, Tier};
use crate::envrng::{with_env, IterRng, SignEnv, HORIZON_PANIC};
use crate::explore;
use crate::refmodel::samplerz as rs;
use crate::refmodel::{gso, keccak, keycodec, poly, sig_bound, sigma, sigma_min, zq, SIGMA_MAX};
use crate::util::{i16s_to_i64, seed_bytes};
use falcon_rust::verif_hooks as fh;
use rayon::prelude::*;
use serde_json::{json, Value};
use std::collections::BTreeMap;
use std::sync::{Arc, Mutex};

#[derive(Default)]
struct Tally {
    cases: u64,
    calls: u64,
    sampler_calls_checked: u64,
    attempts: u64,
    outcomes: BTreeMap<String, u64>,
    found: BTreeMap<String, Found>,
    nviol: u64,
    worst_centre_dev: f64,
    worst_leaf_dev: f64,
    worst_vector_dev: f64,
    extreme_centres: Vec<f64>,
}

fn reduce(mut a: Tally, b: Tally) -> Tally {
    a.extreme_centres.extend(b.extreme_centres.iter().cloned());
    a.cases += b.cases;
    a.calls += b.calls;
    a.sampler_calls_checked += b.sampler_calls_checked;
    a.attempts += b.attempts;
    a.nviol += b.nviol;
    a.worst_centre_dev = a.worst_centre_dev.max(b.worst_centre_dev);
    a.worst_leaf_dev = a.worst_leaf_dev.max(b.worst_leaf_dev);
    a.worst_vector_dev = a.worst_vector_dev.max(b.worst_vector_dev);
    for (k, v) in b.outcomes {
        *a.outcomes.entry(k).or_insert(0) += v;
    }
    for (k, v) in b.found {
        a.found.entry(k).or_insert(v);
    }
    a
}

impl Tally {
    fn viol(&mut self, key: String, what: String, case: Value) {
        self.nviol += 1;
        self.found.entry(key.clone()).or_insert_with(|| found(key, what, case));
    }
    fn out(&mut self, o: &str) {
        *self.outcomes.entry(o.to_string()).or_insert(0) += 1;
    }
    fn into_part(self, ctx: &mut Ctx, mut part: Part) {
        part.states = self.cases;
        part.transitions = self.calls;
        part.validated = self.sampler_calls_checked.max(self.cases);
        for (o, c) in &self.outcomes {
            part.outcome(format!("{} x{}", o, c));
        }
        part.set("violating_cases", json!(self.nviol));
        part.set("sampler_calls_checked", json!(self.sampler_calls_checked));
        part.set("signing_attempts_checked", json!(self.attempts));
        part.set("worst_centre_deviation", json!(self.worst_centre_dev));
        part.set("worst_leaf_relative_deviation", json!(self.worst_leaf_dev));
        part.set("worst_emitted_vector_deviation", json!(self.worst_vector_dev));
        for (_, f) in self.found {
            ctx.violation(f.key, f.what, f.case);
        }
        ctx.add_part(part);
    }
}

/// everything the reference needs about one basis: rows of B' = [[g, f], [G, F]] in tower order,
/// their Gram-Schmidt vectors and squared norms
struct RefBasis {
    n: usize,
    rows: Vec<Vec<f64>>,
    gs: gso::Gso,
}

fn ref_basis(g: &[i64], f: &[i64], cg: &[i64], cf: &[i64]) -> RefBasis {
    let rows = gso::tower_rows(&[g.to_vec(), f.to_vec(), cg.to_vec(), cf.to_vec()]);
    let gs = gso::gram_schmidt_par(&rows);
    RefBasis { n: g.len(), rows, gs }
}

fn dot(a: &[f64], b: &[f64]) -> f64 {
    let mut s = 0.0;
    for (x, y) in a.iter().zip(b.iter()) {
        s += x * y;
    }
    s
}

/// I1: leaves against the dense Gram-Schmidt
fn check_leaves(t: &mut Tally, rb: &RefBasis, leaves: &[f64], sigma_spec: f64, smin: f64, tag: &str, case: &dyn Fn() -> Value) -> bool {
    let n = rb.n;
    if leaves.len() != n {
        t.viol(format!("tree-shape:{}", tag), format!("the signing tree has {} leaves, expected {} ({})", leaves.len(), n, tag), case());
        return false;
    }
    let mut worst: f64 = 0.0;
    let mut ok = true;
    for (j, &l) in leaves.iter().enumerate() {
        for r in [2 * j, 2 * j + 1] {
            let want = sigma_spec / rb.gs.d[r].sqrt();
            worst = worst.max(((l - want) / want).abs());
        }
        if !(l >= smin && l <= SIGMA_MAX) {
            ok = false;
        }
    }
    t.worst_leaf_dev = t.worst_leaf_dev.max(worst);
    if !(worst <= 1e-9) {
        t.viol(format!("I1-leaves-vs-gram-schmidt:{}", tag), format!("leaf standard deviations are not sigma / ||b~_k|| with sigma = {} (worst relative deviation {:e}; first leaf {} vs {}) ({})", sigma_spec, worst, leaves[0], sigma_spec / rb.gs.d[0].sqrt(), tag), case());
        return false;
    }
    if !ok {
        t.viol(format!("I1-leaf-range:{}", tag), format!("a leaf lies outside [sigma_min, sigma_max] ({})", tag), case());
        return false;
    }
    true
}

/// I2 for one attempt: records of 2n sampler calls against the dense nearest-plane recursion.
/// `target` is the real vector t*B'. Returns the final vector target - sum z_k r_k.
#[allow(clippy::too_many_arguments)]
fn check_attempt(t: &mut Tally, rb: &RefBasis, leaves: &[f64], smin: f64, target: &[f64], recs: &[(f64, f64, i16)], log: &[[u8; 17]], log_pos: &mut usize, tag: &str, case: &dyn Fn() -> Value) -> Option<Vec<f64>> {
    let n = rb.n;
    let mut v = target.to_vec();
    t.attempts += 1;
    for (r, &(mu, sg, z)) in recs.iter().enumerate() {
        let j = n - 1 - r / 2;
        let k = 2 * j + r % 2;
        let c = dot(&v, &rb.gs.bstar[k]) / rb.gs.d[k];
        let dev = (mu - c).abs() / (1.0 + c.abs());
        t.worst_centre_dev = t.worst_centre_dev.max(dev);
        t.sampler_calls_checked += 1;
        if !(dev <= 1e-6) {
            t.viol(format!("I2-centre:{}", tag), format!("sampler call {} (leaf {}, slot {}) was centred at {} but the nearest-plane centre of the dense reference is {} ({})", r, j, r % 2, mu, c, tag), case());
            return None;
        }
        if sg != leaves[j] {
            t.viol(format!("I2-width:{}", tag), format!("sampler call {} used width {} but its leaf holds {} ({})", r, sg, leaves[j], tag), case());
            return None;
        }
        // the integer is the specification's SamplerZ on the bytes handed out during this call
        if !log.is_empty() {
            let mut got: Option<i64> = None;
            let mut guard = 0;
            while *log_pos < log.len() && guard < 10_000 {
                let st = rs::sampler_step(mu, sg, smin, &log[*log_pos]);
                *log_pos += 1;
                guard += 1;
                match st {
                    rs::Step::Return(w) => {
                        got = Some(w);
                        break;
                    }
                    rs::Step::Tie { would_return } => {
                        // a 7-byte tie: accept either reading by looking at what the implementation did
                        if would_return == z as i64 {
                            got = Some(would_return);
                            break;
                        }
                    }
                    rs::Step::Reject => {}
                }
            }
            if got != Some(z as i64) {
                t.viol(format!("I2-sample:{}", tag), format!("sampler call {} returned {} but the specification's SamplerZ({}, {}) on the same bytes returns {:?} ({})", r, z, mu, sg, got, tag), case());
                return None;
            }
        }
        let zf = z as f64;
        for (a, b) in v.iter_mut().zip(rb.rows[k].iter()) {
            *a -= zf * b;
        }
    }
    Some(v)
}

// ------------------------------------------------------------------ production size

fn forced_answer(alt: usize) -> [u8; 17] {
    let table: [(usize, u8, u8); 6] = [(0, 0, 0xff), (0, 1, 0x00), (1, 0, 0x00), (3, 1, 0x00), (18, 1, 0x00), (18, 0, 0xff)];
    let (z0, b, cmp) = table[alt - 1];
    let u = if z0 == 18 { 0 } else { rs::RCDT[z0] };
    let mut out = [cmp; 17];
    out[..9].copy_from_slice(&rs::u_to_bytes(u));
    out[9] = b;
    out
}
const MENU: usize = 6;

fn sign_case<V: Variant>(t: &mut Tally, sk: &V::Sk, pk: &V::Pk, rb: &RefBasis, leaves: &[f64], msg: &[u8], stream: u64, devs: &[(usize, usize)], seed: u64, which: &str) {
    let n = V::N;
    t.cases += 1;
    t.calls += 1;
    let smin = sigma_min(n);
    let pos: Vec<u64> = vec![0, 1, (n as u64 * 14) / 10, (2 * n as u64 * 13) / 10];
    let mut forced = BTreeMap::new();
    for &(p, a) in devs {
        forced.insert(pos[p], forced_answer(a));
    }
    let env = Arc::new(Mutex::new(SignEnv::new(stream, forced).logging()));
    fh::arm_leaf_trace();
    let r = catch(|| with_env(&env, || V::sign(msg, sk)));
    let trace = fh::take_leaf_trace();
    let e = env.lock().unwrap_or_else(|e| e.into_inner());
    let case = || json!({"kind":"sign","variant":n,"seed":seed,"key":which,"msg":hex(msg),"stream":stream,"deviations":devs});
    let tag = format!("n={},{}", n, which);
    let sig = match r {
        Ok(s) => s,
        Err(m) if m == HORIZON_PANIC => {
            t.out("horizon");
            return;
        }
        Err(m) => {
            t.viol(format!("sign-panic:{}", tag), format!("sign panicked: {}", m), case());
            return;
        }
    };
    if e.misaligned_fill {
        t.out("draw pattern differs from the role model");
    }
    if trace.is_empty() || trace.len() % (2 * n) != 0 {
        t.viol(format!("I2-trace-shape:{}", tag), format!("the leaf trace has {} records, expected a multiple of 2n = {}", trace.len(), 2 * n), case());
        return;
    }
    // target vector t*B' = (-c, 0)
    let sb = V::sig_to_bytes(&sig);
    let mut sm = sb[1..41].to_vec();
    sm.extend_from_slice(msg);
    let c = keccak::hash_to_point(&sm, n, None);
    let mut target = vec![0.0f64; 2 * n];
    for i in 0..n {
        target[i] = -(c[i] as f64);
    }
    let mut log_pos = 0usize;
    let use_log = !e.misaligned_fill;
    let mut last: Option<Vec<f64>> = None;
    let attempts = trace.len() / (2 * n);
    for a in 0..attempts {
        let recs = &trace[a * 2 * n..(a + 1) * 2 * n];
        let empty: Vec<[u8; 17]> = vec![];
        match check_attempt(t, rb, leaves, smin, &target, recs, if use_log { &e.log } else { &empty }, &mut log_pos, &tag, &case) {
            Some(v) => last = Some(v),
            None => return,
        }
    }
    if use_log && log_pos != e.log.len() {
        t.viol(format!("I2-bytes-left:{}", tag), format!("the signer consumed {} sampler iterations but the specification's samplers account for {}", e.log.len(), log_pos), case());
        return;
    }
    // the emitted vector: (s1, s2) with s1 = c - s2 h centred; target - sum z_k r_k must be (-s1, s2)
    let Some(v) = last else { return };
    let h = keycodec::pk_decode(&V::pk_to_bytes(pk), n).unwrap_or_else(|| V::pk_h(pk).iter().map(|&x| x as i64).collect());
    let Some(s2) = crate::refmodel::codec::decompress(&sb[41..], n) else {
        t.viol(format!("I3-encoding:{}", tag), "the emitted signature does not decode".to_string(), case());
        return;
    };
    let s2h = poly::mul_q(&s2, &h);
    let mut worst: f64 = 0.0;
    let mut norm: i128 = 0;
    for i in 0..n {
        let s1 = zq::centred(c[i] - s2h[i]);
        norm += (s1 as i128) * (s1 as i128) + (s2[i] as i128) * (s2[i] as i128);
        worst = worst.max((v[i] + s1 as f64).abs()).max((v[n + i] - s2[i] as f64).abs());
    }
    t.worst_vector_dev = t.worst_vector_dev.max(worst);
    if !(worst < 1e-3) {
        t.viol(format!("I2-emitted-vector:{}", tag), format!("the emitted (s1, s2) is not target - sum z_k b_k of the recorded sampler outputs (largest coordinate difference {})", worst), case());
        return;
    }
    if norm > sig_bound(n) as i128 {
        t.viol(format!("I3-norm:{}", tag), format!("an emitted signature has squared norm {} above the bound", norm), case());
        return;
    }
    t.out(if attempts > 1 { "conforms (after a norm retry)" } else { "conforms" });
}

fn key_part<V: Variant>(ctx: &mut Ctx, tier: Tier, seeds: &[u64]) {
    let n = V::N;
    let msgs: Vec<Vec<u8>> = vec![vec![], b"data1".to_vec(), vec![0xAA; 96]];
    let t = seeds
        .par_iter()
        .map(|&seed| {
            let mut t = Tally::default();
            let (sk, pk) = match catch(|| V::keygen(seed_bytes(seed))) {
                Ok(x) => x,
                Err(e) => {
                    t.viol(format!("keygen-panic:n={}", n), format!("keygen panicked: {}", e), json!({"kind":"key","variant":n,"seed":seed}));
                    return t;
                }
            };
            let b0 = V::sk_basis(&sk);
            let g = i16s_to_i64(&b0[0]);
            let f: Vec<i64> = b0[1].iter().map(|&x| -(x as i64)).collect();
            let cg = i16s_to_i64(&b0[2]);
            let cf: Vec<i64> = b0[3].iter().map(|&x| -(x as i64)).collect();
            let rb = ref_basis(&g, &f, &cg, &cf);
            // the pair of rows under one leaf is orthogonal after projection (premise of the call order)
            let mut worst_pair: f64 = 0.0;
            for j in 0..n {
                worst_pair = worst_pair.max((dot(&rb.rows[2 * j + 1], &rb.gs.bstar[2 * j]) / rb.gs.d[2 * j]).abs());
            }
            if worst_pair > 1e-9 {
                machinery_error("C10: the two rows under one leaf are not orthogonal in the reference ordering (binding lost)");
            }
            // the key as generated and as reloaded from its serialisation
            let reloaded = catch(|| V::sk_from_bytes(&V::sk_to_bytes(&sk)));
            let mut variants: Vec<(&str, V::Sk)> = vec![("generated", sk.clone())];
            match reloaded {
                Ok(Ok(k2)) => variants.push(("reloaded", k2)),
                other => t.viol(format!("reload-failed:n={}", n), format!("from_bytes(to_bytes(sk)) failed: {:?}", other.map(|r| r.map(|_| ()))), json!({"kind":"key","variant":n,"seed":seed})),
            }
            for (which, key) in &variants {
                t.cases += 1;
                t.calls += 1;
                let leaves = leaves_of(&V::sk_tree(key));
                let case = || json!({"kind":"key","variant":n,"seed":seed,"key":which});
                if !check_leaves(&mut t, &rb, &leaves, sigma(n), sigma_min(n), &format!("n={},{}", n, which), &case) {
                    continue;
                }
                t.out("I1 holds");
                let runs: Vec<Vec<(usize, usize)>> = if *which == "generated" { explore::up_to(4, MENU, if tier.thorough() { 2 } else { 1 }) } else { explore::up_to(4, MENU, 0) };
                for (mi, msg) in msgs.iter().enumerate() {
                    if *which == "reloaded" && mi != 1 {
                        continue;
                    }
                    for devs in &runs {
                        if !devs.is_empty() && mi != 1 && !tier.thorough() {
                            continue;
                        }
                        sign_case::<V>(&mut t, key, &pk, &rb, &leaves, msg, 60 + mi as u64, devs, seed, which);
                    }
                }
                // steering by the centres: among a ladder of messages, the executions whose sampler calls have
                // the most negative and the most positive centre get the full per-call check as well
                if *which == "generated" {
                    let nscan = if tier.thorough() { 160 } else { 40 };
                    let mut best: Option<(f64, usize)> = None;
                    let mut worst: Option<(f64, usize)> = None;
                    for i in 0..nscan {
                        let msg = format!("centre steering {}", i).into_bytes();
                        fh::arm_leaf_trace();
                        let r = catch(|| crate::util::with_stream(90, || V::sign(&msg, key)));
                        let trace = fh::take_leaf_trace();
                        if r.is_err() {
                            continue;
                        }
                        let lo = trace.iter().map(|x| x.0).fold(f64::INFINITY, f64::min);
                        let hi = trace.iter().map(|x| x.0).fold(f64::NEG_INFINITY, f64::max);
                        if best.map(|b| lo < b.0).unwrap_or(true) {
                            best = Some((lo, i));
                        }
                        if worst.map(|b| hi > b.0).unwrap_or(true) {
                            worst = Some((hi, i));
                        }
                    }
                    for (c, i) in [best, worst].into_iter().flatten() {
                        t.extreme_centres.push(c);
                        let msg = format!("centre steering {}", i).into_bytes();
                        sign_case::<V>(&mut t, key, &pk, &rb, &leaves, &msg, 90, &[], seed, which);
                    }
                }
            }
            t
        })
        .reduce(Tally::default, reduce);
    let mut part = Part::new(
        &format!("keys_and_signatures_{}", n),
        &format!("{} keys (seeds {:?}), each as generated and as reloaded through to_bytes/from_bytes: I1 all n leaves = sigma(spec)/||b~_k|| from a dense 2n x 2n Gram-Schmidt in tower order and within [sigma_min, sigma_max]; I2 for every signing execution (3 messages x default environment and all sets of <= {} forced sampler answers at 4 positions): each of the 2n sampler calls of every attempt has the nearest-plane centre of the dense reference recursion (tolerance 1e-6), its leaf as width, the specification's SamplerZ output on the logged bytes, and the emitted (s1,s2) equals target - sum z_k b_k; I3 norm within the bound; plus, per key, the two executions of a ladder of 40 (thorough 160) messages whose sampler calls have the most negative and the most positive centre", seeds.len(), seeds, if tier.thorough() { 2 } else { 1 }),
    );
    part.exhaustive = true;
    part.set("extreme_centres_steered_to", json!(t.extreme_centres));
    if t.sampler_calls_checked == 0 && t.nviol == 0 {
        machinery_error("C10: no sampler call was checked (vacuity guard)");
    }
    t.into_part(ctx, part);
}

// ------------------------------------------------------------------ small scope: all outcome sequences

fn small_scope(ctx: &mut Ctx, n: usize, menu: &[(usize, u8)], scales: &[f64]) {
    // small integer bases B' = [[g, f], [G, F]] (full rank; the NTRU equation is irrelevant for I2)
    let bases: Vec<[Vec<i64>; 4]> = if n == 2 {
        vec![[vec![3, 1], vec![1, -2], vec![-1, 4], vec![5, 2]], [vec![7, -2], vec![0, 3], vec![2, 2], vec![-1, 6]]]
    } else if n == 4 {
        vec![[vec![5, 1, 0, -2], vec![1, -3, 2, 0], vec![-2, 0, 6, 1], vec![0, 4, -1, 7]]]
    } else {
        vec![[vec![9, 1, 0, -2, 1, 0, 3, -1], vec![1, -3, 2, 0, 0, 1, -1, 2], vec![-2, 0, 6, 1, -1, 2, 0, 1], vec![0, 4, -1, 11, 2, 0, -3, 1]]]
    };
    let sg = 8.0; // any sigma: leaves are sigma/||b~||; widths are kept inside [1.0, 1.8205] by scaling below
    let mut t_all = Tally::default();
    for (bi, b, scale) in bases.iter().enumerate().flat_map(|(bi, b)| scales.iter().map(move |&sc| (bi, b, sc))) {
        let (g, f, cg, cf) = (&b[0], &b[1], &b[2], &b[3]);
        let rb = ref_basis(g, f, cg, cf);
        // choose sigma so that the largest leaf is 1.8: leaves = s / sqrt(D)
        let dmin = rb.gs.d.iter().cloned().fold(f64::INFINITY, f64::min);
        let s = 1.8 * dmin.sqrt();
        let _ = sg;
        // the hook expects the stored layout [g, -f, G, -F]
        let b0: [Vec<i16>; 4] = [g.iter().map(|&x| x as i16).collect(), f.iter().map(|&x| -x as i16).collect(), cg.iter().map(|&x| x as i16).collect(), cf.iter().map(|&x| -x as i16).collect()];
        let leaves = leaves_of(&fh::tree_from_basis(&b0, s));
        let smin = 0.5;
        let case0 = || json!({"kind":"small","n":n,"basis":bi});
        if !check_leaves(&mut t_all, &rb, &leaves, s, 0.0, &format!("small n={}", n), &case0) {
            continue;
        }
        // a generic real target t = (t0, t1) in coefficient form
        // (scaled: the sampler centres then range over thousands in both directions)
        let t0: Vec<f64> = (0..n).map(|i| scale * (0.37 + 1.25 * i as f64)).collect();
        let t1: Vec<f64> = (0..n).map(|i| scale * (-2.61 + 0.5 * i as f64)).collect();
        // ffsampling works on t in FFT form
        let t0f = fh::complex_fft(&t0.iter().map(|&x| (x, 0.0)).collect::<Vec<_>>());
        let t1f = fh::complex_fft(&t1.iter().map(|&x| (x, 0.0)).collect::<Vec<_>>());
        // target vector t * B' over the reals (negacyclic products)
        let mut target = vec![0.0f64; 2 * n];
        let addmul = |acc: &mut [f64], a: &[f64], p: &[i64]| {
            for i in 0..n {
                for j in 0..n {
                    let k = i + j;
                    let v = a[i] * p[j] as f64;
                    if k < n {
                        acc[k] += v;
                    } else {
                        acc[k - n] -= v;
                    }
                }
            }
        };
        {
            let (lo, hi) = target.split_at_mut(n);
            addmul(lo, &t0, g);
            addmul(lo, &t1, cg);
            addmul(hi, &t0, f);
            addmul(hi, &t1, cf);
        }
        let ncalls = 2 * n;
        // sequences are decoded from their index on the fly (43M sequences at n = 8 must not be materialised)
        let total_seqs = (menu.len() as u64).pow(ncalls as u32);
        let msize = menu.len() as u64;
        let t = (0..total_seqs)
            .into_par_iter()
            .map(|idx| {
                let mut seq_v = vec![0usize; ncalls];
                let mut k = idx;
                for i in (0..ncalls).rev() {
                    seq_v[i] = (k % msize) as usize;
                    k /= msize;
                }
                let seq = &seq_v;
                let mut t = Tally::default();
                t.cases += 1;
                t.calls += 1;
                let answers: Vec<[u8; 17]> = seq
                    .iter()
                    .map(|&m| {
                        let (z0, b) = menu[m];
                        let mut a = [0u8; 17];
                        a[..9].copy_from_slice(&rs::u_to_bytes(rs::RCDT[z0]));
                        a[9] = b;
                        a
                    })
                    .collect();
                let ans = answers.clone();
                let mut rng = IterRng::new(move |i| if i < ans.len() { ans[i] } else { [0u8; 17] }, ncalls + 4);
                fh::arm_leaf_trace();
                let r = catch(|| fh::ffsampling_small(&t0f, &t1f, &b0, s, smin, &mut rng));
                let trace = fh::take_leaf_trace();
                let case = || json!({"kind":"small","n":n,"basis":bi,"scale":scale,"outcomes":seq});
                let tag = format!("small n={}", n);
                match r {
                    Ok((z0f, z1f)) => {
                        if trace.len() != ncalls {
                            t.viol(format!("I2-trace-shape:{}", tag), format!("{} sampler calls recorded, expected {}", trace.len(), ncalls), case());
                            return t;
                        }
                        let mut lp = 0usize;
                        if let Some(v) = check_attempt(&mut t, &rb, &leaves, smin, &target, &trace, &rng.log, &mut lp, &tag, &case) {
                            // the returned z (FFT form) must be the integer combination the calls produced
                            let z0c = fh::complex_ifft(&z0f);
                            let z1c = fh::complex_ifft(&z1f);
                            let mut recon = target.clone();
                            {
                                let z0r: Vec<f64> = z0c.iter().map(|c| c.0.round()).collect();
                                let z1r: Vec<f64> = z1c.iter().map(|c| c.0.round()).collect();
                                let mut sub = vec![0.0f64; 2 * n];
                                let (lo, hi) = sub.split_at_mut(n);
                                addmul(lo, &z0r, g);
                                addmul(lo, &z1r, cg);
                                addmul(hi, &z0r, f);
                                addmul(hi, &z1r, cf);
                                for i in 0..2 * n {
                                    recon[i] -= sub[i];
                                }
                            }
                            let worst = (0..2 * n).map(|i| (recon[i] - v[i]).abs()).fold(0.0, f64::max);
                            t.worst_vector_dev = t.worst_vector_dev.max(worst);
                            if worst > 1e-6 {
                                t.viol(format!("I2-emitted-vector:{}", tag), format!("the returned z does not combine the recorded sampler outputs (difference {})", worst), case());
                            } else {
                                t.out("conforms");
                            }
                        }
                    }
                    Err(e) => t.viol(format!("ffsampling-panic:{}", tag), format!("ffsampling panicked: {}", e), case()),
                }
                t
            })
            .reduce(Tally::default, reduce);
        t_all = reduce(t_all, t);
    }
    let mut part = Part::new(
        &format!("small_scope_n{}", n),
        &format!("n = {}: ffSampling on harness-built integer bases (target vectors scaled by {:?}, so that centres range over thousands in both directions) with a tree from the real gram/ffldl/normalize_tree, explored over ALL sequences of sampler outcomes from a menu of {} (z0, sign) answers for each of the {} calls ({}^{} executions per basis and scale): every call's centre equals the dense nearest-plane centre given the earlier outcomes, widths are the leaves, every output is the specification's SamplerZ on the same bytes, and the returned z is the combination of the recorded outputs", n, scales, menu.len(), 2 * n, menu.len(), 2 * n),
    );
    part.exhaustive = true;
    t_all.into_part(ctx, part);
}

/// I2 on a key that replaced another key in the same variable (per-key precomputations must not outlive the key)
fn slot_reuse<V: Variant>(ctx: &mut Ctx) {
    let n = V::N;
    let (s0, s1) = (ctx.seed.wrapping_mul(4096) + 3, ctx.seed.wrapping_mul(4096));
    let (sk1, _) = V::keygen(seed_bytes(s1));
    let b0 = V::sk_basis(&sk1);
    let g = i16s_to_i64(&b0[0]);
    let f: Vec<i64> = b0[1].iter().map(|&x| -(x as i64)).collect();
    let cg = i16s_to_i64(&b0[2]);
    let cf: Vec<i64> = b0[3].iter().map(|&x| -(x as i64)).collect();
    let rb = ref_basis(&g, &f, &cg, &cf);
    let leaves = leaves_of(&V::sk_tree(&sk1));
    let r = crate::sched::on_fresh_thread(move || {
        let mut t = Tally::default();
        let mut cur = V::keygen(seed_bytes(s0));
        let _ = crate::util::with_stream(91, || V::sign(b"first key in the slot", &cur.0));
        cur = V::keygen(seed_bytes(s1));
        for (i, msg) in [&b"second key in the slot"[..], &b""[..]].iter().enumerate() {
            sign_case::<V>(&mut t, &cur.0, &cur.1, &rb, &leaves, msg, 92 + i as u64, &[], s1, "in a reused variable");
        }
        t
    });
    let mut part = Part::new(&format!("key_slot_reuse_{}", n), "a key is generated into a local variable, signs once, and is replaced by a second key in the same variable (fresh thread); two signing executions of the second key get the full I2 check (every sampler call's centre, width and output against the dense reference of the SECOND key)");
    part.exhaustive = true;
    match r {
        Ok(t) => t.into_part(ctx, part),
        Err(e) => {
            ctx.violation(format!("sign-panic:n={},slot-reuse", n), format!("panic while signing with a key in a reused variable: {}", e), json!({"kind":"slot","variant":n}));
            ctx.add_part(part);
        }
    }
}

/// The range half of I1 over many more keys than the dense reference can afford: every leaf of every generated
/// tree lies in [sigma_min, sigma_max], the precondition under which each SamplerZ call has the width the
/// nearest-plane argument needs (outside it the sampler's acceptance arithmetic wraps and the output is no
/// longer Gaussian along that Gram-Schmidt direction).
fn leaf_window<V: Variant>(ctx: &mut Ctx, tier: Tier) {
    let n = V::N;
    let off = ctx.seed.wrapping_mul(4096);
    let count: u64 = match (n, tier.thorough()) {
        (512, false) => 24,
        (512, true) => 256,
        (_, false) => 8,
        (_, true) => 64,
    };
    let mut seeds: Vec<u64> = (0..count).map(|i| off + 200 + i).collect();
    seeds.extend(crate::util::gamma_near_miss_seeds(n).into_iter().take(if tier.thorough() { 6 } else { 2 }));
    seeds.extend(crate::util::boundary_seeds(n).into_iter().take(2));
    seeds.sort();
    seeds.dedup();
    let (smin, smax) = (sigma_min(n), crate::refmodel::SIGMA_MAX);
    let res: Vec<(u64, Result<(f64, f64), String>)> = seeds
        .par_iter()
        .map(|&s| {
            let r = crate::ctx::catch(|| {
                let (sk, _) = V::keygen(seed_bytes(s));
                let leaves = leaves_of(&V::sk_tree(&sk));
                let lo = leaves.iter().cloned().fold(f64::INFINITY, f64::min);
                let hi = leaves.iter().cloned().fold(f64::NEG_INFINITY, f64::max);
                (if leaves.iter().all(|x| x.is_finite()) && leaves.len() == n { lo } else { f64::NAN }, hi)
            });
            (s, r)
        })
        .collect();
    let mut part = Part::new(&format!("leaf_range_over_keys_{}", n), &format!("{} keys (seeds LE64(i): a window of {}, seeds with a candidate just above the Gram-Schmidt bound, seeds on the edge of the encodable range): all n leaves of the generated signing tree lie in [sigma_min, sigma_max]", seeds.len(), count));
    let (mut lo_all, mut hi_all) = (f64::INFINITY, 0.0f64);
    for (s, r) in res {
        part.states += 1;
        part.transitions += 1;
        part.validated += 1;
        match r {
            Ok((lo, hi)) if lo >= smin && hi <= smax => {
                lo_all = lo_all.min(lo);
                hi_all = hi_all.max(hi);
            }
            Ok((lo, hi)) => ctx.violation(
                format!("I1-leaf-range:n={},seed={}", n, s),
                format!("{}::keygen(seed LE64({})): the signing tree's leaves span [{}, {}] but the sampler is only correct for widths in [{}, {}]: along the corresponding Gram-Schmidt directions the signatures are not Gaussian with standard deviation sigma", V::name(), s, lo, hi, smin, smax),
                json!({"kind":"leaf-range","variant":n,"seed":s}),
            ),
            Err(e) => ctx.violation(format!("keygen-panic:n={},seed={}", n, s), format!("{}::keygen(seed LE64({})) panicked: {}", V::name(), s, e), json!({"kind":"leaf-range","variant":n,"seed":s})),
        }
    }
    part.set("leaf_range_observed", json!([lo_all, hi_all]));
    part.outcome(format!("all leaves within [{:.6}, {:.6}]", smin, smax));
    part.exhaustive = true;
    ctx.add_part(part);
}

pub fn run(tier: Tier) {
    let mut ctx = Ctx::new("C10", tier);
    let off = ctx.seed.wrapping_mul(4096);
    let s512: Vec<u64> = if tier.thorough() { (0..8).map(|i| off + i).chain([785]).collect() } else { vec![off, 785] };
    let s1024: Vec<u64> = if tier.thorough() { vec![off, off + 1, 14] } else { vec![off] };
    // the parameter table the signer reads (sigma, sigma_min) against the specification's Table 3.3
    {
        let mut part = Part::new("parameter_table", "sigma and sigma_min of both variants as the library's parameter table holds them, against the specification (Table 3.3)");
        for n in [512usize, 1024] {
            let (pn, psigma, psigmin, _pbound, _plen) = fh::parameters(n);
            part.states += 1;
            part.transitions += 1;
            part.validated += 1;
            if pn != n || psigma != sigma(n) || psigmin != sigma_min(n) {
                ctx.violation(
                    format!("parameter-table:n={}", n),
                    format!("the parameter table for n = {} holds sigma = {}, sigma_min = {} but the specification gives sigma = {}, sigma_min = {}", n, psigma, psigmin, sigma(n), sigma_min(n)),
                    json!({"kind":"parameters","variant":n}),
                );
            }
            part.outcome(format!("n={} sigma={} sigma_min={}", n, psigma, psigmin));
        }
        part.exhaustive = true;
        ctx.add_part(part);
    }
    key_part::<V512>(&mut ctx, tier, &s512);
    key_part::<V1024>(&mut ctx, tier, &s1024);
    slot_reuse::<V512>(&mut ctx);
    slot_reuse::<V1024>(&mut ctx);
    leaf_window::<V512>(&mut ctx, tier);
    leaf_window::<V1024>(&mut ctx, tier);
    let full: Vec<(usize, u8)> = vec![(0, 0), (0, 1), (1, 0), (1, 1), (2, 0), (2, 1)];
    small_scope(&mut ctx, 2, &full, &[1.0, -1.0, 97.0, -97.0, 1000.0, -1000.0, 7000.0, -7000.0]);
    if tier.thorough() {
        small_scope(&mut ctx, 4, &full, &[1.0, -800.0]);
        small_scope(&mut ctx, 8, &[(0, 0), (1, 1), (2, 0)], &[1.0]);
    } else {
        small_scope(&mut ctx, 4, &[(0, 0), (1, 1), (2, 0)], &[1.0, -800.0, 3000.0]);
        small_scope(&mut ctx, 8, &[(0, 1), (1, 0)], &[1.0]);
    }
    crate::e5::run_part(&mut ctx, "decode");
    ctx.sample(json!({"invariant":"I2","call":"r-th sampler call of an attempt <-> Gram-Schmidt row k = 2(n-1-floor(r/2)) + (r mod 2) of the rows X^brv(i)(g,f), X^brv(i)(G,F)","centre":"<target - sum_{later calls} z r, b~_k> / ||b~_k||^2"}));
    ctx.assume("the literal statement (E<s,u> = 0, E<s,u>^2 = sigma^2 along all directions) is NOT decided directly: it follows from I1-I3 and C09 by the Klein/GPV nearest-plane theorem, which is mathematics and not checked here");
    ctx.assume("dense Gram-Schmidt in f64 (modified Gram-Schmidt); centre tolerance 1e-6 relative, observed ~1e-10");
    ctx.finish();
}

pub fn replay(case: &Value) -> Result<Option<String>, String> {
    let kind = case.get("kind").and_then(|k| k.as_str()).ok_or("no kind")?;
    if kind == "parameters" {
        let n = case.get("variant").and_then(|x| x.as_u64()).ok_or("variant")? as usize;
        let (_, psigma, psigmin, _, _) = fh::parameters(n);
        return Ok(if psigma != sigma(n) || psigmin != sigma_min(n) { Some("parameter table differs from the specification".into()) } else { None });
    }
    if kind == "e5" || kind == "e5-setup" {
        return crate::e5::replay(case);
    }
    if kind == "slot" {
        return Err("re-run ./vf check C10 (the slot history is enumerated deterministically)".into());
    }
    if kind == "leaf-range" {
        let n = case.get("variant").and_then(|x| x.as_u64()).ok_or("variant")? as usize;
        let seed = case.get("seed").and_then(|x| x.as_u64()).ok_or("seed")?;
        fn span<V: Variant>(seed: u64) -> (f64, f64) {
            let (sk, _) = V::keygen(seed_bytes(seed));
            let leaves = leaves_of(&V::sk_tree(&sk));
            (leaves.iter().cloned().fold(f64::INFINITY, f64::min), leaves.iter().cloned().fold(f64::NEG_INFINITY, f64::max))
        }
        let (lo, hi) = if n == 512 { span::<V512>(seed) } else { span::<V1024>(seed) };
        return Ok(if lo >= sigma_min(n) && hi <= crate::refmodel::SIGMA_MAX { None } else { Some(format!("leaves span [{}, {}]", lo, hi)) });
    }
    if kind == "small" {
        return Err("re-run ./vf check C10 (small scope is enumerated deterministically)".into());
    }
    let variant = case.get("variant").and_then(|x| x.as_u64()).ok_or("variant")?;
    let seed = case.get("seed").and_then(|x| x.as_u64()).ok_or("seed")?;
    fn one<V: Variant>(case: &Value, seed: u64) -> Option<String> {
        let n = V::N;
        let (sk, pk) = V::keygen(seed_bytes(seed));
        let which = case.get("key").and_then(|x| x.as_str()).unwrap_or("generated").to_string();
        let key = if which == "reloaded" { V::sk_from_bytes(&V::sk_to_bytes(&sk)).ok()? } else { sk.clone() };
        let b0 = V::sk_basis(&sk);
        let g = i16s_to_i64(&b0[0]);
        let f: Vec<i64> = b0[1].iter().map(|&x| -(x as i64)).collect();
        let cg = i16s_to_i64(&b0[2]);
        let cf: Vec<i64> = b0[3].iter().map(|&x| -(x as i64)).collect();
        let rb = ref_basis(&g, &f, &cg, &cf);
        let leaves = leaves_of(&V::sk_tree(&key));
        let mut t = Tally::default();
        if !check_leaves(&mut t, &rb, &leaves, sigma(n), sigma_min(n), "replay", &|| json!({})) {
            return t.found.into_iter().next().map(|(_, f)| f.what);
        }
        if case.get("kind").and_then(|k| k.as_str()) == Some("sign") {
            let msg = crate::ctx::unhex(case.get("msg").and_then(|x| x.as_str()).unwrap_or(""));
            let stream = case.get("stream").and_then(|x| x.as_u64()).unwrap_or(61);
            let devs: Vec<(usize, usize)> = case.get("deviations").and_then(|x| x.as_array()).map(|a| a.iter().map(|d| (d[0].as_u64().unwrap_or(0) as usize, d[1].as_u64().unwrap_or(1) as usize)).collect()).unwrap_or_default();
            sign_case::<V>(&mut t, &key, &pk, &rb, &leaves, &msg, stream, &devs, seed, &which);
        }
        t.found.into_iter().next().map(|(_, f)| f.what)
    }
    Ok(if variant == 512 { one::<V512>(case, seed) } else { one::<V1024>(case, seed) })
}

//! C07 - signature compression is lossless and canonical (Algorithms 17/18).
//! S1 complete small scope (all strings), S2 encoder alphabet, S3 end-of-buffer windows at the
//! production sizes, S4 unary-run boundary tokens.

use super::gen_codec::{for_each_tail, runs, token_body};
use super::{found, Found};
use crate::ctx::{catch, hex, unhex, Ctx, Part, Tier};
use crate::refmodel::codec;
use falcon_rust::verif_hooks as fh;
use rayon::prelude::*;
use serde_json::{json, Value};
use std::collections::BTreeMap;

#[derive(Debug, Clone, Copy, PartialEq, Eq, PartialOrd, Ord)]
pub enum Outcome {
    Accept,
    RejectBoth,
    RejectOutOfRange,
}

/// The property's oracle for one (string, n). Err((class, description)) on a violation.
pub fn judge_decompress(x: &[u8], n: usize) -> Result<Outcome, (&'static str, String)> {
    let r = codec::decompress(x, n);
    let show = || {
        if x.len() <= 12 {
            hex(x)
        } else {
            format!("{}..{} ({} bytes)", hex(&x[..4]), hex(&x[x.len() - 8..]), x.len())
        }
    };
    match catch(|| fh::decompress(x, n)) {
        Err(e) => Err(("panic", format!("decompress({}, n={}) panicked: {}", show(), n, e))),
        Ok(Some(v)) => {
            let vi: Vec<i64> = v.iter().map(|&a| a as i64).collect();
            match &r {
                Some(rv) if *rv == vi => {}
                Some(rv) => {
                    let k = (0..n).find(|&k| rv[k] != vi[k]).unwrap_or(0);
                    return Err(("wrong-value", format!("decompress({}, n={}) returned {} at index {} where Algorithm 18 gives {}", show(), n, vi[k], k, rv[k])));
                }
                None => {
                    return Err(("accepts-invalid", format!("decompress({}, n={}) accepted a string Algorithm 18 rejects", show(), n)));
                }
            }
            match catch(|| fh::compress(&v, x.len())) {
                Ok(Some(c)) if c == x => Ok(Outcome::Accept),
                Ok(other) => Err(("not-canonical", format!("decompress({}, n={}) accepted, but compress of the result gives {:?}", show(), n, other.map(|c| hex(&c[..c.len().min(12)]))))),
                Err(e) => Err(("panic-recompress", format!("compress of the decoded vector of {} panicked: {}", show(), e))),
            }
        }
        Ok(None) => match r {
            Some(rv) if rv.iter().all(|a| a.abs() < 12160) => Err(("rejects-valid", format!("decompress({}, n={}) rejected the canonical encoding of an in-range vector", show(), n))),
            Some(_) => Ok(Outcome::RejectOutOfRange),
            None => Ok(Outcome::RejectBoth),
        },
    }
}

/// compress must equal the reference encoder on every input; in-range vectors must round-trip
pub fn judge_compress(v: &[i16], l: usize) -> Result<bool, (&'static str, String)> {
    let vi: Vec<i64> = v.iter().map(|&a| a as i64).collect();
    let want = codec::compress(&vi, l);
    match catch(|| fh::compress(v, l)) {
        Err(e) => Err(("compress-panic", format!("compress({:?}, {}) panicked: {}", v, l, e))),
        Ok(got) => {
            if got != want {
                return Err(("compress-mismatch", format!("compress({:?}, {}) = {:?} but Algorithm 17 gives {:?}", v, l, got.map(|c| hex(&c)), want.map(|c| hex(&c)))));
            }
            let fits = codec::bits_of(&vi) <= 8 * l;
            if fits != got.is_some() {
                return Err(("compress-fit", format!("compress({:?}, {}) is {} although the encoding needs {} bits", v, l, if got.is_some() { "Some" } else { "None" }, codec::bits_of(&vi))));
            }
            if let Some(c) = &got {
                if vi.iter().all(|a| a.abs() < 12160) {
                    match catch(|| fh::decompress(c, v.len())) {
                        Ok(Some(back)) if back == v => {}
                        other => return Err(("roundtrip", format!("decompress(compress({:?}, {})) = {:?}", v, l, other))),
                    }
                }
            }
            Ok(got.is_some())
        }
    }
}

#[derive(Default)]
struct Tally {
    cases: u64,
    outcomes: BTreeMap<Outcome, u64>,
    found: BTreeMap<String, Found>,
    nviol: u64,
}

impl Tally {
    fn add(&mut self, x: &[u8], n: usize, tag: &str) {
        self.cases += 1;
        match judge_decompress(x, n) {
            Ok(o) => *self.outcomes.entry(o).or_insert(0) += 1,
            Err((class, what)) => {
                self.nviol += 1;
                let key = format!("decompress:{}:{}", class, tag);
                self.found.entry(key.clone()).or_insert_with(|| found(key, what, json!({"kind":"decompress","n":n,"hex":hex(x)})));
            }
        }
    }
    fn merge(&mut self, o: Tally) {
        self.cases += o.cases;
        self.nviol += o.nviol;
        for (k, v) in o.outcomes {
            *self.outcomes.entry(k).or_insert(0) += v;
        }
        for (k, v) in o.found {
            self.found.entry(k).or_insert(v);
        }
    }
    fn into_part(self, ctx: &mut Ctx, mut part: Part) {
        part.states = self.cases;
        part.transitions = self.cases + self.outcomes.get(&Outcome::Accept).copied().unwrap_or(0);
        part.validated = self.cases;
        for (o, c) in &self.outcomes {
            part.outcome(format!("{:?} x{}", o, c));
        }
        part.set("violating_cases", json!(self.nviol));
        for (_, f) in self.found {
            ctx.violation(f.key, f.what, f.case);
        }
        ctx.add_part(part);
    }
}

fn s1(ctx: &mut Ctx, full: bool, four: bool) {
    // every byte string of length 1..=3 for n' in 1..=3
    let mut total = Tally::default();
    for l in 1..=3usize {
        for n in 1..=3usize {
            if !full && l == 3 && n != 2 && n != 3 {
                continue;
            }
            let tag = format!("n={},len={}", n, l);
            let t: Tally = (0..256u32)
                .into_par_iter()
                .map(|b0| {
                    let mut t = Tally::default();
                    let rest = 1u32 << (8 * (l - 1));
                    let mut x = vec![0u8; l];
                    x[0] = b0 as u8;
                    for k in 0..rest {
                        for j in 1..l {
                            x[j] = (k >> (8 * (l - 1 - j))) as u8;
                        }
                        t.add(&x, n, &tag);
                    }
                    t
                })
                .reduce(Tally::default, |mut a, b| {
                    a.merge(b);
                    a
                });
            total.merge(t);
        }
    }
    if four {
        // every 4-byte string for n' = 2, 3, 4 (3 x 2^32 decodes)
        for n in 2..=4usize {
            let tag = format!("n={},len=4", n);
            let t: Tally = (0..65536u32)
                .into_par_iter()
                .map(|hi| {
                    let mut t = Tally::default();
                    let mut x = [(hi >> 8) as u8, hi as u8, 0u8, 0u8];
                    for lo in 0..65536u32 {
                        x[2] = (lo >> 8) as u8;
                        x[3] = lo as u8;
                        t.add(&x, n, &tag);
                    }
                    t
                })
                .reduce(Tally::default, |mut a, b| {
                    a.merge(b);
                    a
                });
            total.merge(t);
        }
    }
    let mut part = Part::new("S1_all_strings", if four { "every byte string of length 1, 2, 3 decoded as n' = 1, 2, 3 coefficients and every 4-byte string decoded as n' = 2, 3, 4 coefficients: decompress vs bit-level Algorithm 18; accepted => compress reproduces the string" } else { "every byte string of length 1, 2, 3 decoded as n' = 1, 2, 3 coefficients: decompress vs bit-level Algorithm 18; accepted => compress reproduces the string" });
    part.exhaustive = true;
    if total.outcomes.get(&Outcome::Accept).copied().unwrap_or(0) == 0 && total.nviol == 0 {
        crate::ctx::machinery_error("C07 S1: no string was accepted (vacuity guard)");
    }
    total.into_part(ctx, part);
}

const ALPHA: [i16; 22] = [0, 1, -1, 127, -127, 128, -128, 129, -129, 255, -255, 256, -256, 12159, -12159, 12160, -12160, 12161, -12161, 32767, -32767, -32768];

fn s2(ctx: &mut Ctx) {
    let mut vectors: Vec<Vec<i16>> = vec![];
    for &a in &ALPHA {
        vectors.push(vec![a]);
        for &b in &ALPHA {
            vectors.push(vec![a, b]);
            for &c in &ALPHA {
                vectors.push(vec![a, b, c]);
            }
        }
    }
    let res: Vec<(u64, u64, Vec<Found>)> = vectors
        .par_iter()
        .map(|v| {
            let vi: Vec<i64> = v.iter().map(|&a| a as i64).collect();
            let fit = (codec::bits_of(&vi) + 7) / 8;
            let mut cases = 0;
            let mut some = 0;
            let mut f = vec![];
            // every budget from 0 to two bytes past the exact fit (capped so huge runs stay cheap)
            let lo = fit.saturating_sub(3);
            let budgets: Vec<usize> = (0..=2).chain(lo..=fit + 2).collect();
            for l in budgets {
                cases += 1;
                match judge_compress(v, l) {
                    Ok(true) => some += 1,
                    Ok(false) => {}
                    Err((class, what)) => {
                        if f.len() < 2 {
                            f.push(found(format!("compress:{}:n={}", class, v.len()), what, json!({"kind":"compress","v":v,"l":l})));
                        }
                    }
                }
            }
            (cases, some, f)
        })
        .collect();
    let mut part = Part::new("S2_encoder_alphabet", "every vector in A^n', n' <= 3, A = {0,+-1,+-127,+-128,+-129,+-255,+-256,+-12159,+-12160,+-12161,+-32767,-32768} x budgets {0,1,2} and fit-3..fit+2 bytes: compress == Algorithm 17 (Some iff it fits), in-range vectors round-trip");
    let mut some = 0;
    for (c, s, f) in res {
        part.states += c;
        part.transitions += 2 * c;
        part.validated += c;
        some += s;
        for x in f {
            ctx.violation(x.key, x.what, x.case);
        }
    }
    part.outcome(format!("Some x{}", some));
    part.outcome(format!("None x{}", part.states - some));
    part.exhaustive = true;
    ctx.add_part(part);
}

fn s3(ctx: &mut Ctx, dmax: usize, tailbits: usize) {
    for (n, l) in [(512usize, 625usize), (1024, 1239)] {
        let mut jobs = vec![];
        for d in 0..=dmax {
            for r in 1..=3usize {
                jobs.push((d, r));
            }
        }
        let t: Tally = jobs
            .par_iter()
            .map(|&(d, r)| {
                let mut t = Tally::default();
                let tag = format!("n={},d={},r={}", n, d, r);
                for_each_tail(n, l, d, r, tailbits, |body| t.add(body, n, &tag));
                t
            })
            .reduce(Tally::default, |mut a, b| {
                a.merge(b);
                a
            });
        let mut part = Part::new(
            &format!("S3_end_of_buffer_{}", n),
            &format!("n={}, L={} bytes: for every distance d in 0..={} bits between cursor and buffer end with r in {{1,2,3}} coefficients still to decode (prefix of n-r in-range coefficients steering the cursor), all 2^min(d,{}) leading tail patterns x remaining bits all-0/all-1", n, l, dmax, tailbits),
        );
        part.exhaustive = true;
        if t.outcomes.get(&Outcome::Accept).copied().unwrap_or(0) == 0 && t.nviol == 0 {
            crate::ctx::machinery_error("C07 S3: no string was accepted (vacuity guard)");
        }
        t.into_part(ctx, part);
    }
}

fn s4(ctx: &mut Ctx) {
    let mut jobs = vec![];
    for (n, l) in [(512usize, 625usize), (1024, 1239), (12, 90), (16, 20)] {
        for align in 0..8usize {
            for last in [false, true] {
                for sign in [false, true] {
                    for low in [0u8, 1, 127] {
                        for run in runs() {
                            jobs.push((n, l, align, last, sign, low, run));
                        }
                    }
                }
            }
        }
    }
    for align in 0..8usize {
        for last in [false, true] {
            for sign in [false, true] {
                for low in [0u8, 1, 127] {
                    for run in super::gen_codec::wide_runs() {
                        jobs.push((12, 8300, align, last, sign, low, run));
                    }
                }
            }
        }
    }
    let t: Tally = jobs
        .par_iter()
        .map(|&(n, l, align, last, sign, low, run)| {
            let mut t = Tally::default();
            if let Some(body) = token_body(n, l, align, last, sign, low, run) {
                let tag = format!("token:n={},last={},run={},sign={}", n, last, run, sign);
                t.add(&body, n, &tag);
                // the same token with a set bit in the padding, and with the final byte cut short
                if let Some(lastbyte) = body.iter().rposition(|&b| b != 0) {
                    if lastbyte + 1 < body.len() {
                        let mut b2 = body.clone();
                        b2[body.len() - 1] |= 1;
                        t.add(&b2, n, &format!("{}:padbit", tag));
                    }
                    let b3 = body[..lastbyte + 1].to_vec();
                    t.add(&b3, n, &format!("{}:tight", tag));
                    if lastbyte > 1 {
                        let b4 = body[..lastbyte].to_vec();
                        t.add(&b4, n, &format!("{}:truncated", tag));
                    }
                }
            }
            t
        })
        .reduce(Tally::default, |mut a, b| {
            a.merge(b);
            a
        });
    let mut part = Part::new(
        "S4_run_tokens",
        "unary runs {0..=130, 255, 256, 257, 511, 512, 513} x {middle,last coefficient} x sign x low in {0,1,127} x 8 cursor alignments at (n,L) in {(512,625),(1024,1239),(12,90),(16,20)}, and runs at the widths of wider counters {1023..1025, 4095..4097, 32766..32769, 40000, 65534..65537} at (12, 8300); each also with a padding bit set, cut to the tight length and truncated by one byte",
    );
    part.exhaustive = true;
    t.into_part(ctx, part);
}

/// S6: every sequence of coefficient tokens (valid and invalid ones) of length 2..=5 over a small alphabet, and
/// at production length every PAIR of positions carrying a token of the alphabet inside an otherwise ordinary
/// body: a decoder that folds per-coefficient verdicts (counts, parities, last-one-wins) must still reject
/// whenever any coefficient is malformed
fn s6(ctx: &mut Ctx, thorough: bool) {
    use super::gen_codec::Bits;
    // (sign, low, run): +0, -0, +1, -1, +127, -127, +128, -128, 2*128+5, a run of 95 (out of range)
    let alphabet: Vec<(bool, u8, usize)> = vec![(false, 0, 0), (true, 0, 0), (false, 1, 0), (true, 1, 0), (false, 127, 0), (true, 127, 0), (false, 0, 1), (true, 0, 1), (false, 5, 2), (true, 0, 95)];
    let a = alphabet.len();
    let maxn = if thorough { 5 } else { 4 };
    let mut t = Tally::default();
    for n in 2..=maxn {
        let total = a.pow(n as u32);
        let tn: Tally = (0..total)
            .into_par_iter()
            .map(|mut idx| {
                let mut t = Tally::default();
                let mut b = Bits::default();
                let mut negzeros = 0;
                for _ in 0..n {
                    let tok = alphabet[idx % a];
                    idx /= a;
                    if tok == (true, 0, 0) {
                        negzeros += 1;
                    }
                    b.push_coeff(tok.0, tok.1, tok.2);
                }
                let tight = b.len().div_ceil(8);
                let tag = format!("tokens:n={},negative-zeros={}", n, negzeros.min(3));
                t.add(&b.to_bytes(tight, false), n, &tag);
                t.add(&b.to_bytes(tight + 2, false), n, &tag);
                t
            })
            .reduce(Tally::default, |mut x, y| {
                x.merge(y);
                x
            });
        t.merge(tn);
    }
    // production length: pairs of positions
    for (n, l) in [(512usize, 625usize), (1024, 1239)] {
        let pos: Vec<usize> = vec![0, 1, 2, 7, 8, n / 2, n - 3, n - 2, n - 1];
        let mut jobs = vec![];
        for i in 0..pos.len() {
            for j in i + 1..pos.len() {
                for ti in 0..a {
                    for tj in 0..a {
                        jobs.push((pos[i], pos[j], ti, tj));
                    }
                }
            }
        }
        let tn: Tally = jobs
            .par_iter()
            .map(|&(pi, pj, ti, tj)| {
                let mut t = Tally::default();
                let mut b = Bits::default();
                for k in 0..n {
                    if k == pi {
                        b.push_coeff(alphabet[ti].0, alphabet[ti].1, alphabet[ti].2);
                    } else if k == pj {
                        b.push_coeff(alphabet[tj].0, alphabet[tj].1, alphabet[tj].2);
                    } else {
                        b.push_value(((k as i64 * 37) % 201) - 100);
                    }
                }
                if b.len() <= 8 * l {
                    let nz = [ti, tj].iter().filter(|&&x| x == 1).count();
                    t.add(&b.to_bytes(l, false), n, &format!("token-pair:n={},negative-zeros={}", n, nz));
                }
                t
            })
            .reduce(Tally::default, |mut x, y| {
                x.merge(y);
                x
            });
        t.merge(tn);
    }
    let mut part = Part::new("S6_token_sequences", &format!("every sequence of 2..={} coefficient tokens over the alphabet {{+0, -0, +-1, +-127, +-128, 261, a run of 95}} (tight length and two padding bytes); at (n, L) = (512, 625), (1024, 1239) every pair of the positions {{0,1,2,7,8,n/2,n-3,n-2,n-1}} x every pair of tokens inside an ordinary body: decompress vs Algorithm 18, accepted => canonical", maxn));
    part.exhaustive = true;
    t.into_part(ctx, part);
}

/// S5: histories of two codec calls on the same thread (state carried between calls must not exist):
/// all ordered pairs over an alphabet of compress calls (fitting and not fitting) and decompress
/// calls (accepted and rejected); each call's result is compared with the reference on its own.
fn s5(ctx: &mut Ctx, thorough: bool) {
    #[derive(Clone)]
    enum Call {
        C(Vec<i16>, usize),
        D(Vec<u8>, usize),
    }
    let mut calls: Vec<Call> = vec![];
    let small: Vec<i16> = if thorough { vec![0, 1, -1, 127, -128, 129, -255, 256, 12159] } else { vec![0, -1, 127, -128, 256, 12159] };
    let mut vectors: Vec<Vec<i16>> = vec![];
    for &a in &small {
        vectors.push(vec![a]);
        for &b in &small {
            vectors.push(vec![a, b]);
        }
    }
    // production-size vectors: one that fits 625 bytes and one that does not
    vectors.push((0..512).map(|i| ((i * 37) % 200 - 100) as i16).collect());
    vectors.push(vec![-300i16; 512]);
    vectors.push((0..512).map(|i| if i % 2 == 0 { 255 } else { -1 }).collect());
    for v in &vectors {
        let vi: Vec<i64> = v.iter().map(|&a| a as i64).collect();
        let fit = (codec::bits_of(&vi) + 7) / 8;
        let budgets: Vec<usize> = if v.len() >= 512 { vec![625] } else { vec![fit.saturating_sub(1), fit, fit + 2] };
        for l in budgets {
            calls.push(Call::C(v.clone(), l));
            if let Some(x) = codec::compress(&vi, l) {
                calls.push(Call::D(x.clone(), v.len()));
                let mut y = x.clone();
                let last = y.len() - 1;
                y[last] ^= 1; // padding bit or damaged last coefficient
                calls.push(Call::D(y, v.len()));
            }
        }
    }
    let ncalls = calls.len();
    let judge_call = |c: &Call| -> Result<(), (&'static str, String)> {
        match c {
            Call::C(v, l) => judge_compress(v, *l).map(|_| ()),
            Call::D(x, n) => judge_decompress(x, *n).map(|_| ()),
        }
    };
    let res: Vec<(u64, Vec<Found>)> = (0..ncalls)
        .into_par_iter()
        .map(|i| {
            let mut f = vec![];
            let mut cnt = 0;
            for j in 0..ncalls {
                cnt += 1;
                let first = judge_call(&calls[i]);
                let second = judge_call(&calls[j]);
                for (pos, r) in [(0, first), (1, second)] {
                    if let Err((class, what)) = r {
                        if f.len() < 2 {
                            let (kind, desc) = match (&calls[i], &calls[j]) {
                                (Call::C(..), Call::C(..)) => ("compress;compress", "two compress calls"),
                                (Call::C(..), Call::D(..)) => ("compress;decompress", "compress then decompress"),
                                (Call::D(..), Call::C(..)) => ("decompress;compress", "decompress then compress"),
                                _ => ("decompress;decompress", "two decompress calls"),
                            };
                            f.push(found(format!("history:{}:{}", kind, class), format!("in a history of {} on one thread, call {} fails its own oracle: {}", desc, pos + 1, what), json!({"kind":"pair","first":i,"second":j})));
                        }
                    }
                }
            }
            (cnt, f)
        })
        .collect();
    let mut part = Part::new("S5_call_histories", &format!("all {}^2 ordered pairs of codec calls executed back to back on one thread, over an alphabet of {} calls: compress of vectors in A^n' (n' <= 2) and three 512-coefficient vectors with budgets fit-1 / fit / fit+2 (or 625), and decompress of the resulting strings and of damaged copies; every call is judged by its own reference result, so state leaking from one call into the next is visible", ncalls, ncalls));
    for (c, f) in res {
        part.states += c;
        part.transitions += 2 * c;
        part.validated += 2 * c;
        for x in f {
            ctx.violation(x.key, x.what, x.case);
        }
    }
    part.outcome(format!("alphabet {}", ncalls));
    part.exhaustive = true;
    ctx.add_part(part);
}

pub fn run(tier: Tier) {
    let mut ctx = Ctx::new("C07", tier);
    let four = tier.thorough() && ctx.build == "checked";
    s1(&mut ctx, true, four);
    s2(&mut ctx);
    if tier.thorough() {
        s3(&mut ctx, 40, 16);
    } else {
        s3(&mut ctx, 24, 10);
    }
    s4(&mut ctx);
    s5(&mut ctx, tier.thorough());
    s6(&mut ctx, tier.thorough());
    ctx.sample(json!({"string":"0103ff","n":3,"reference":format!("{:?}", codec::decompress(&[1,3,0xff],3)),"impl":format!("{:?}", catch(|| fh::decompress(&[1,3,0xff],3)))}));
    ctx.sample(json!({"vector":[1,-129,12159],"budget":8,"impl":format!("{:?}", catch(|| fh::compress(&[1,-129,12159],16)).map(|c| c.map(|c| hex(&c))))}));
    ctx.assume("reference = bit-level Algorithms 17/18 with unbounded unary run (validated against PQClean comp_encode/comp_decode at setup)");
    ctx.assume("every branch of compress/decompress is keyed on (cursor mod 8, bits left, last/non-last, run length); S1 is complete where these interact in small buffers, S3 re-establishes the buffer-end interactions at production sizes, S4 the run-length boundaries");
    ctx.finish();
}

pub fn replay(case: &Value) -> Result<Option<String>, String> {
    let kind = case.get("kind").and_then(|k| k.as_str()).ok_or("no kind")?;
    match kind {
        "decompress" => {
            let n = case.get("n").and_then(|x| x.as_u64()).ok_or("n")? as usize;
            let x = unhex(case.get("hex").and_then(|k| k.as_str()).ok_or("hex")?);
            Ok(judge_decompress(&x, n).err().map(|e| e.1))
        }
        "pair" => Err("re-run ./vf check C07 (the pair alphabet is enumerated deterministically)".into()),
        "compress" => {
            let v: Vec<i16> = case.get("v").and_then(|x| x.as_array()).ok_or("v")?.iter().map(|x| x.as_i64().unwrap_or(0) as i16).collect();
            let l = case.get("l").and_then(|x| x.as_u64()).ok_or("l")? as usize;
            Ok(judge_compress(&v, l).err().map(|e| e.1))
        }
        _ => Err(format!("unknown kind {}", kind)),
    }
}

//! Generators of compressed-signature bodies aimed at the streaming decoder's guards:
//! end-of-buffer windows and unary-run boundary tokens (shared by C02, C03, C07).

/// bit string builder, MSB-first within bytes (as the specification's encodings are)
#[derive(Clone, Default)]
pub struct Bits {
    pub bits: Vec<bool>,
}

impl Bits {
    pub fn push_coeff(&mut self, sign: bool, low: u8, run: usize) {
        self.bits.push(sign);
        for i in (0..7).rev() {
            self.bits.push((low >> i) & 1 == 1);
        }
        for _ in 0..run {
            self.bits.push(false);
        }
        self.bits.push(true);
    }
    pub fn push_value(&mut self, v: i64) {
        let a = v.unsigned_abs();
        self.push_coeff(v < 0, (a & 127) as u8, (a >> 7) as usize);
    }
    pub fn len(&self) -> usize {
        self.bits.len()
    }
    /// pack into exactly `nbytes` bytes; bits beyond the end are dropped, missing bits take `fill`
    pub fn to_bytes(&self, nbytes: usize, fill: bool) -> Vec<u8> {
        let mut out = vec![0u8; nbytes];
        for i in 0..8 * nbytes {
            let b = if i < self.bits.len() { self.bits[i] } else { fill };
            if b {
                out[i / 8] |= 1 << (7 - (i % 8));
            }
        }
        out
    }
}

/// `count` in-range coefficients whose encodings occupy exactly `total_bits` bits
/// (9..=103 bits each). None if impossible.
pub fn prefix(count: usize, total_bits: usize) -> Option<Vec<i64>> {
    if total_bits < 9 * count || total_bits > 103 * count {
        return None;
    }
    let mut extra = total_bits - 9 * count;
    let mut v = Vec::with_capacity(count);
    for i in 0..count {
        let run = extra.min(94);
        extra -= run;
        let low = 1 + (i as i64 * 7) % 120;
        let mag = low + 128 * run as i64;
        v.push(if i % 2 == 0 { mag } else { -mag });
    }
    Some(v)
}

/// One end-of-buffer job: after a prefix of n-r coefficients exactly `d` bits remain in a buffer of
/// `l` bytes. Calls `f(body)` for every tail: all 2^min(d,tailbits) leading patterns x the remaining
/// bits all-zero / all-one.
pub fn for_each_tail(n: usize, l: usize, d: usize, r: usize, tailbits: usize, mut f: impl FnMut(&[u8])) -> u64 {
    if 8 * l < d {
        return 0;
    }
    let Some(p) = prefix(n - r, 8 * l - d) else {
        return 0;
    };
    let mut base = Bits::default();
    for &v in &p {
        base.push_value(v);
    }
    let plen = base.len();
    let free = d.min(tailbits);
    let mut count = 0;
    let fills: &[bool] = if d > free { &[false, true] } else { &[false] };
    for &fill in fills {
        let mut body = base.to_bytes(l, fill);
        for pat in 0..(1u64 << free) {
            // write the `free` pattern bits at positions plen..plen+free
            for k in 0..free {
                let pos = plen + k;
                let bit = (pat >> (free - 1 - k)) & 1 == 1;
                let mask = 1u8 << (7 - (pos % 8));
                if bit {
                    body[pos / 8] |= mask;
                } else {
                    body[pos / 8] &= !mask;
                }
            }
            f(&body);
            count += 1;
        }
    }
    count
}

/// Unary-run boundary tokens: a coefficient (sign, low, run) placed at bit alignment `align`
/// either as a middle coefficient or as the last one, in a vector of n coefficients and a buffer of
/// l bytes; all other coefficients are 9-bit encodings of small values. None if it does not fit
/// with at least the terminating structure.
pub fn token_body(n: usize, l: usize, align: usize, last: bool, sign: bool, low: u8, run: usize) -> Option<Vec<u8>> {
    if n < 10 {
        return None;
    }
    let mut b = Bits::default();
    // `before` nine-bit coefficients put the cursor at alignment (before mod 8)
    let before = if last { n - 1 } else { align };
    if !last {
        for i in 0..before {
            b.push_value(1 + (i as i64 % 100));
        }
        b.push_coeff(sign, low, run);
        for i in 0..(n - 1 - before) {
            b.push_value(-(2 + (i as i64 % 100)));
        }
    } else {
        // last coefficient: choose the number of ten-bit coefficients so that the cursor alignment
        // before the token is `align`
        let mut tens = 0;
        while (9 * (n - 1) + tens) % 8 != align {
            tens += 1;
        }
        for i in 0..(n - 1) {
            if i < tens {
                b.push_value(128 + (i as i64 % 100));
            } else {
                b.push_value(1 + (i as i64 % 100));
            }
        }
        b.push_coeff(sign, low, run);
    }
    if b.len() > 8 * l {
        return None;
    }
    Some(b.to_bytes(l, false))
}

/// unary run lengths: every length up to 130 (the cap is 95; window-at-a-time scanners have their seams at
/// multiples of 8, 16, 32, 64 minus the cursor alignment) and the values around 256 and 512
/// run lengths at the widths of machine counters (an 8-bit counter is covered by `runs`): only reachable in
/// buffers far longer than a signature, which `decompress` accepts like any other length
pub fn wide_runs() -> Vec<usize> {
    vec![1023, 1024, 1025, 4095, 4096, 4097, 32766, 32767, 32768, 32769, 40000, 65534, 65535, 65536, 65537]
}

pub fn runs() -> Vec<usize> {
    (0..=130).chain([255, 256, 257, 511, 512, 513]).collect()
}

//! C05 - keys and signatures survive serialisation: fixed sizes, exact round trip.
//! (a) per-field codec bijectivity (E1), (b) seeds window x messages x signer environments,
//! (c) representability of every generated key.

use super::{found, Found};
use crate::api::{Variant, V1024, V512};
use crate::ctx::{catch, hex, Ctx, Part, Tier};
use crate::refmodel::{keycodec, sig_len};
use crate::util::{seed_bytes, seed_window, with_bounded_thread_rng, with_stream};
use rayon::prelude::*;
use serde_json::{json, Value};
use std::collections::BTreeMap;

#[derive(Default)]
struct Tally {
    cases: u64,
    calls: u64,
    outcomes: BTreeMap<String, u64>,
    found: BTreeMap<String, Found>,
    nviol: u64,
    maxima: BTreeMap<String, i64>,
}

impl Tally {
    fn viol(&mut self, key: String, what: String, case: Value) {
        self.nviol += 1;
        self.found.entry(key.clone()).or_insert_with(|| found(key, what, case));
    }
    fn out(&mut self, o: &str) {
        *self.outcomes.entry(o.to_string()).or_insert(0) += 1;
    }
    fn into_part(self, ctx: &mut Ctx, mut part: Part) {
        part.states = self.cases;
        part.transitions = self.calls;
        part.validated = self.cases;
        for (o, c) in &self.outcomes {
            part.outcome(format!("{} x{}", o, c));
        }
        part.set("violating_cases", json!(self.nviol));
        if !self.maxima.is_empty() {
            part.set("observed_maxima", json!(self.maxima));
        }
        for (_, f) in self.found {
            ctx.violation(f.key, f.what, f.case);
        }
        ctx.add_part(part);
    }
}

fn reduce(mut a: Tally, b: Tally) -> Tally {
    a.cases += b.cases;
    a.calls += b.calls;
    a.nviol += b.nviol;
    for (k, v) in b.outcomes {
        *a.outcomes.entry(k).or_insert(0) += v;
    }
    for (k, v) in b.found {
        a.found.entry(k).or_insert(v);
    }
    for (k, v) in b.maxima {
        let e = a.maxima.entry(k).or_insert(0);
        *e = (*e).max(v);
    }
    a
}

fn i64s(v: &[i16]) -> Vec<i64> {
    v.iter().map(|&x| x as i64).collect()
}

/// (f, g, F, G) from the stored basis [g, -f, G, -F]
fn fgfg(b0: &[Vec<i16>; 4]) -> (Vec<i64>, Vec<i64>, Vec<i64>, Vec<i64>) {
    (b0[1].iter().map(|&x| -(x as i64)).collect(), i64s(&b0[0]), b0[3].iter().map(|&x| -(x as i64)).collect(), i64s(&b0[2]))
}

// ------------------------------------------------------------- (a) codec bijectivity per field

fn sk_field_case<V: Variant>(t: &mut Tally, f: &[i64], g: &[i64], cf: &[i64], tag: &str) {
    t.cases += 1;
    t.calls += 2;
    let Some(bytes) = keycodec::sk_encode(f, g, cf) else { return };
    let case = || json!({"kind":"sk-bytes","variant":V::N,"hex":hex(&bytes)});
    match catch(|| V::sk_from_bytes(&bytes).map(|sk| (V::sk_basis(&sk), V::sk_to_bytes(&sk)))) {
        Ok(Ok((b0, back))) => {
            let (f2, g2, cf2, _) = fgfg(&b0);
            if f2 != f || g2 != g || cf2 != cf {
                t.viol(format!("sk-codec:wrong-values:{}", tag), format!("{}::SecretKey::from_bytes decodes different polynomials than were encoded ({})", V::name(), tag), case());
            } else if back != bytes {
                t.viol(format!("sk-codec:re-encode:{}", tag), format!("{}::SecretKey to_bytes(from_bytes(b)) != b ({})", V::name(), tag), case());
            } else {
                t.out("sk field round trip ok");
            }
        }
        Ok(Err(e)) => t.viol(format!("sk-codec:rejected:{}", tag), format!("{}::SecretKey::from_bytes rejects a canonical encoding ({}): {}", V::name(), tag, e), case()),
        Err(e) => t.viol(format!("sk-codec:panic:{}", tag), format!("{}::SecretKey::from_bytes panicked ({}): {}", V::name(), tag, e), case()),
    }
}

fn codec_part<V: Variant>(ctx: &mut Ctx, tier: Tier, base: &(Vec<i64>, Vec<i64>, Vec<i64>)) {
    let n = V::N;
    let w = keycodec::fg_bits(n);
    let lim_fg = (1i64 << (w - 1)) - 1;
    let mut jobs: Vec<(usize, usize, i64)> = vec![]; // (poly, position, value)
    let step = if tier.thorough() { 1 } else if n == 512 { 16 } else { 64 };
    for (poly, lim) in [(0usize, lim_fg), (1, lim_fg), (2, 127i64)] {
        for pos in [0usize, 1, n / 2, n - 1] {
            for v in -lim..=lim {
                jobs.push((poly, pos, v));
            }
        }
        for pos in (0..n).step_by(step) {
            jobs.push((poly, pos, lim));
            jobs.push((poly, pos, -lim));
        }
    }
    let t = jobs
        .par_iter()
        .map(|&(poly, pos, v)| {
            let mut t = Tally::default();
            let (mut f, mut g, mut cf) = base.clone();
            match poly {
                0 => f[pos] = v,
                1 => g[pos] = v,
                _ => cf[pos] = v,
            }
            sk_field_case::<V>(&mut t, &f, &g, &cf, &format!("poly{}", poly));
            t
        })
        .reduce(Tally::default, reduce);
    let mut part = Part::new(
        &format!("sk_field_codec_{}", n),
        &format!("every representable value of f, g ({} bits) and F (8 bits) at positions {{0,1,n/2,n-1}} and the two extreme values at every {}position, inside a real key: reference-encoded, decoded by from_bytes (basis read through the hook), re-encoded", w, if step == 1 { "".to_string() } else { format!("{}th ", step) }),
    );
    part.exhaustive = true;
    t.into_part(ctx, part);

    // runs of zero coefficients: length x start (a word-at-a-time packer treats an all-zero word specially)
    let mut jobs: Vec<(usize, usize, usize)> = vec![];
    for poly in 0..3usize {
        for k in (1..=24usize).chain([32, 40, 64]) {
            let mut starts: Vec<usize> = (0..=9).chain([15, 16, 17, 23, 24, n / 2 - 1, n / 2, n / 2 + 1, n - k]).collect();
            starts.sort();
            starts.dedup();
            for p in starts {
                if p + k <= n {
                    jobs.push((poly, p, k));
                }
            }
        }
    }
    let roots = crate::refmodel::poly::roots(n);
    let t = jobs
        .par_iter()
        .map(|&(poly, p, k)| {
            let mut t = Tally::default();
            let (mut f, mut g, mut cf) = base.clone();
            let v = match poly {
                0 => &mut f,
                1 => &mut g,
                _ => &mut cf,
            };
            for x in v[p..p + k].iter_mut() {
                *x = 0;
            }
            // keep the neighbours non-zero so that the run has exactly this length
            if p > 0 && v[p - 1] == 0 {
                v[p - 1] = 1;
            }
            if p + k < n && v[p + k] == 0 {
                v[p + k] = -1;
            }
            if crate::refmodel::poly::eval_at_roots(&f, &roots).iter().any(|&x| x == 0) {
                return t; // f not invertible: outside the property
            }
            sk_field_case::<V>(&mut t, &f, &g, &cf, &format!("zero-run:poly{}", poly));
            t
        })
        .reduce(Tally::default, reduce);
    let mut part = Part::new(&format!("sk_zero_runs_{}", n), "a run of k zero coefficients (k in 1..=24, 32, 40, 64) starting at p in {0..9, 15, 16, 17, 23, 24, n/2-1, n/2, n/2+1, n-k} in f, g or F of a real key: reference-encoded, decoded by from_bytes, re-encoded byte for byte");
    part.exhaustive = true;
    t.into_part(ctx, part);

    // public key: every value at 4 positions, extremes everywhere
    let (_sk, pk) = crate::api::key::<V>(0);
    let h0: Vec<i64> = V::pk_h(&pk).iter().map(|&x| x as i64).collect();
    let mut jobs = vec![];
    for pos in [0usize, 1, n / 2, n - 1] {
        for v in 0..12289i64 {
            jobs.push((pos, v));
        }
    }
    for pos in 0..n {
        jobs.push((pos, 0));
        jobs.push((pos, 12288));
    }
    let t = jobs
        .par_iter()
        .map(|&(pos, v)| {
            let mut t = Tally::default();
            t.cases += 1;
            t.calls += 2;
            let mut h = h0.clone();
            h[pos] = v;
            let bytes = keycodec::pk_encode(&h);
            let case = || json!({"kind":"pk-bytes","variant":n,"hex":hex(&bytes)});
            match catch(|| V::pk_from_bytes(&bytes).map(|pk| (V::pk_h(&pk), V::pk_to_bytes(&pk)))) {
                Ok(Ok((h2, back))) => {
                    if h2.iter().map(|&x| x as i64).collect::<Vec<_>>() != h {
                        t.viol("pk-codec:wrong-values".into(), format!("{}::PublicKey::from_bytes decodes a different polynomial (field {} = {})", V::name(), pos, v), case());
                    } else if back != bytes {
                        t.viol("pk-codec:re-encode".into(), format!("{}::PublicKey to_bytes(from_bytes(b)) != b (field {} = {})", V::name(), pos, v), case());
                    } else {
                        t.out("pk field round trip ok");
                    }
                }
                Ok(Err(e)) => t.viol("pk-codec:rejected".into(), format!("{}::PublicKey::from_bytes rejects a canonical encoding (field {} = {}): {}", V::name(), pos, v, e), case()),
                Err(e) => t.viol("pk-codec:panic".into(), format!("{}::PublicKey::from_bytes panicked: {}", V::name(), e), case()),
            }
            t
        })
        .reduce(Tally::default, reduce);
    let mut part = Part::new(&format!("pk_field_codec_{}", n), "all 12289 values at public-key fields {0,1,n/2,n-1}, values 0 and q-1 at every field");
    part.exhaustive = true;
    t.into_part(ctx, part);
}

// ------------------------------------------------------------- (b)+(c) seeds window

const MSGS: [&[u8]; 4] = [b"", b"\x00", b"data1", &[0xAA; 96]];

fn seed_case<V: Variant>(t: &mut Tally, seed: u64, streams: u64) {
    let n = V::N;
    let w = keycodec::fg_bits(n);
    let lim_fg = (1i64 << (w - 1)) - 1;
    t.cases += 1;
    let sb = seed_bytes(seed);
    let case = |extra: &str| json!({"kind":"seed","variant":n,"seed":seed,"streams":streams,"note":extra});
    let kp = catch(|| V::keygen(sb));
    t.calls += 1;
    let (sk, pk) = match kp {
        Ok(x) => x,
        Err(e) => {
            t.viol(format!("keygen:panic:n={},seed={}", n, seed), format!("{}::keygen(seed {}) panicked: {}", V::name(), seed, e), case(""));
            return;
        }
    };
    // (c) representability
    let (f, g, cf, _cg) = fgfg(&V::sk_basis(&sk));
    let mf = f.iter().chain(g.iter()).map(|x| x.abs()).max().unwrap();
    let mcf = cf.iter().map(|x| x.abs()).max().unwrap();
    let e = t.maxima.entry(format!("n={} max|f|,|g|", n)).or_insert(0);
    *e = (*e).max(mf);
    let e = t.maxima.entry(format!("n={} max|F|", n)).or_insert(0);
    *e = (*e).max(mcf);
    if mf > lim_fg || mcf > 127 {
        t.viol(
            format!("sk-not-representable:n={},seed={}", n, seed),
            format!("{}::keygen(seed LE64({})) yields max|f|,|g| = {}, max|F| = {}: outside the {}-bit / 8-bit fields, to_bytes truncates", V::name(), seed, mf, mcf, w),
            case("representability"),
        );
    }
    // sizes
    let skb = V::sk_to_bytes(&sk);
    let pkb = V::pk_to_bytes(&pk);
    t.calls += 2;
    if skb.len() != keycodec::sk_len(n) || pkb.len() != keycodec::pk_len(n) {
        t.viol(format!("size:n={}", n), format!("{}: |sk| = {}, |pk| = {} (expected {}, {})", V::name(), skb.len(), pkb.len(), keycodec::sk_len(n), keycodec::pk_len(n)), case("size"));
    }
    // round trips
    t.calls += 2;
    let sk2 = match catch(|| V::sk_from_bytes(&skb)) {
        Ok(Ok(sk2)) => {
            if sk2 != sk {
                t.viol(format!("sk-roundtrip:differs:n={},seed={}", n, seed), format!("{}: from_bytes(to_bytes(sk)) != sk for seed LE64({})", V::name(), seed), case("sk round trip"));
            } else if V::sk_to_bytes(&sk2) != skb {
                t.viol(format!("sk-roundtrip:bytes:n={},seed={}", n, seed), format!("{}: re-encoding the decoded secret key gives different bytes, seed {}", V::name(), seed), case("sk round trip"));
            } else {
                t.out("sk round trip ok");
            }
            Some(sk2)
        }
        Ok(Err(e)) => {
            t.viol(format!("sk-roundtrip:rejected:n={},seed={}", n, seed), format!("{}: from_bytes(to_bytes(sk)) = Err({}) for seed LE64({})", V::name(), e, seed), case("sk round trip"));
            None
        }
        Err(e) => {
            t.viol(format!("sk-roundtrip:panic:n={},seed={}", n, seed), format!("{}: from_bytes(to_bytes(sk)) panicked for seed {}: {}", V::name(), seed, e), case("sk round trip"));
            None
        }
    };
    match catch(|| V::pk_from_bytes(&pkb)) {
        Ok(Ok(pk2)) if pk2 == pk && V::pk_to_bytes(&pk2) == pkb => t.out("pk round trip ok"),
        other => t.viol(format!("pk-roundtrip:n={},seed={}", n, seed), format!("{}: public key round trip failed for seed {}: {:?}", V::name(), seed, other.map(|r| r.map(|_| "decoded but different"))), case("pk round trip")),
    }
    // signatures: fixed streams and the production RNG
    for (mi, msg) in MSGS.iter().enumerate() {
        for env in 0..=streams {
            t.calls += 3;
            let r = catch(|| if env == 0 { with_bounded_thread_rng(|| V::sign(msg, &sk)) } else { with_stream(env, || V::sign(msg, &sk)) });
            let sig = match r {
                Ok(s) => s,
                Err(e) => {
                    t.viol(format!("sign:panic:n={}", n), format!("{}::sign panicked (seed {}, msg {}, env {}): {}", V::name(), seed, mi, env, e), case("sign"));
                    continue;
                }
            };
            let sb2 = V::sig_to_bytes(&sig);
            if sb2.len() != sig_len(n) {
                t.viol(format!("size:sig:n={}", n), format!("{}: |sig| = {} (expected {})", V::name(), sb2.len(), sig_len(n)), case("sig size"));
            }
            match catch(|| V::sig_from_bytes(&sb2)) {
                Ok(Ok(s2)) if s2 == sig && V::sig_to_bytes(&s2) == sb2 => t.out("sig round trip ok"),
                other => t.viol(format!("sig-roundtrip:n={}", n), format!("{}: signature round trip failed (seed {}, msg {}, env {}): {:?}", V::name(), seed, mi, env, other.map(|r| r.map(|_| "decoded but different"))), case("sig round trip")),
            }
        }
        // the decoded key signs; the result verifies under the original public key
        if let Some(sk2) = &sk2 {
            t.calls += 2;
            match catch(|| with_stream(7, || V::sign(msg, sk2))) {
                Ok(sig) => {
                    if !V::verify(msg, &sig, &pk) {
                        t.viol(format!("decoded-key-signature-rejected:n={},seed={}", n, seed), format!("{}: a signature made with from_bytes(to_bytes(sk)) does not verify under the original public key (seed {}, msg {})", V::name(), seed, mi), case("decoded key signs"));
                    } else {
                        t.out("decoded key signs, original pk verifies");
                    }
                }
                Err(e) if e == crate::envrng::HORIZON_PANIC => {
                    t.viol(format!("decoded-key-cannot-sign:n={},seed={}", n, seed), format!("{}: signing with from_bytes(to_bytes(sk)) does not terminate within 64x the usual randomness (seed {}): the decoded key is not the generated one", V::name(), seed), case("decoded key signs"));
                    break;
                }
                Err(e) => t.viol(format!("decoded-key-sign:panic:n={}", n), format!("{}: signing with the decoded key panicked (seed {}): {}", V::name(), seed, e), case("decoded key signs")),
            }
        }
    }
}

fn seeds_part<V: Variant>(ctx: &mut Ctx, tier: Tier) {
    let seeds = seed_window(V::N, tier.thorough(), ctx.seed);
    let streams = if tier.thorough() { 4 } else { 2 };
    let t = seeds
        .par_iter()
        .map(|&s| {
            let mut t = Tally::default();
            seed_case::<V>(&mut t, s, streams);
            t
        })
        .reduce(Tally::default, reduce);
    let mut part = Part::new(
        &format!("seeds_window_{}", V::N),
        &format!("seeds LE64(i)||0^24 for i in {:?}..: sizes 1281/897/666 (2305/1793/1280); from_bytes(to_bytes(x)) == x and re-encodes identically for sk, pk and signatures of 4 messages under {} fixed ChaCha streams and the production RNG; the decoded key signs and the original pk verifies; representability of f, g, F read through the hook", &seeds[..seeds.len().min(4)], streams),
    );
    part.set("seeds", json!(seeds));
    part.exhaustive = true;
    t.into_part(ctx, part);
}

fn one_variant<V: Variant>(ctx: &mut Ctx, tier: Tier) {
    let (sk, _) = crate::api::key::<V>(0);
    let (f, g, cf, _) = fgfg(&V::sk_basis(&sk));
    codec_part::<V>(ctx, tier, &(f, g, cf));
    seeds_part::<V>(ctx, tier);
}

/// call histories of the secret-key decoder on ONE thread: every ordered pair and every triple (x, y, x) over an
/// alphabet of valid encodings (two Falcon-512 keys, one Falcon-1024 key) and rejected ones (reserved pattern in the
/// first field of f, in a middle field of g, in the last field of F; one byte short; other variant's header): a
/// decoder that keeps scratch state between calls (and leaves it dirty after a rejection) shows in the next call
fn decoder_histories(ctx: &mut Ctx) {
    let (ka, kb, kc) = (crate::api::key::<V512>(0).0, crate::api::key::<V512>(1).0, crate::api::key::<V1024>(0).0);
    let (ba, bb, bc) = (V512::sk_to_bytes(&ka), V512::sk_to_bytes(&kb), V1024::sk_to_bytes(&kc));
    let reserve = |bytes: &[u8], n: usize, poly: usize, fld: usize| -> Vec<u8> {
        let w = keycodec::fg_bits(n);
        let (width, base) = match poly {
            0 => (w, 8),
            1 => (w, 8 + n * w),
            _ => (8, 8 + 2 * n * w),
        };
        let mut b = bytes.to_vec();
        let pos = base + fld * width;
        for k in 0..width {
            let bit = pos + k;
            let v = if k == 0 { 1 } else { 0 };
            b[bit / 8] = (b[bit / 8] & !(1 << (7 - bit % 8))) | (v << (7 - bit % 8));
        }
        b
    };
    // (name, bytes, variant, expected Ok)
    let items: Vec<(&str, Vec<u8>, usize, bool)> = vec![
        ("valid 512 key A", ba.clone(), 512, true),
        ("valid 512 key B", bb.clone(), 512, true),
        ("valid 1024 key", bc.clone(), 1024, true),
        ("512, reserved value in f[0]", reserve(&ba, 512, 0, 0), 512, false),
        ("512, reserved value in g[256]", reserve(&ba, 512, 1, 256), 512, false),
        ("512, reserved value in F[511]", reserve(&ba, 512, 2, 511), 512, false),
        ("1024, reserved value in f[1023]", reserve(&bc, 1024, 0, 1023), 1024, false),
        ("512, one byte short", ba[..ba.len() - 1].to_vec(), 512, false),
        ("1024 bytes given to the 512 decoder", bc.clone(), 512, false),
    ];
    let decode = |it: &(&str, Vec<u8>, usize, bool)| -> Result<Option<Vec<u8>>, String> {
        let b = it.1.clone();
        if it.2 == 512 {
            crate::ctx::catch(move || V512::sk_from_bytes(&b).ok().map(|k| V512::sk_to_bytes(&k)))
        } else {
            crate::ctx::catch(move || V1024::sk_from_bytes(&b).ok().map(|k| V1024::sk_to_bytes(&k)))
        }
    };
    let mut hists: Vec<Vec<usize>> = vec![];
    for x in 0..items.len() {
        for y in 0..items.len() {
            hists.push(vec![x, y]);
            if x != y {
                hists.push(vec![x, y, x]);
            }
        }
    }
    let mut part = Part::new("decoder_call_histories", &format!("every ordered pair and every triple (x, y, x) of SecretKey::from_bytes calls on one fresh thread over an alphabet of {} byte strings (three valid keys of both variants; reserved value in the first field of f / a middle field of g / the last field of F; one byte short; the other variant's bytes): every call must accept exactly the valid strings and re-encode them byte for byte, whatever was decoded before", items.len()));
    let res: Vec<(Vec<usize>, Vec<Result<Option<Vec<u8>>, String>>)> = hists.par_iter().map(|h| {
        let h2 = h.clone();
        let its: Vec<(&str, Vec<u8>, usize, bool)> = items.clone();
        let r = crate::sched::on_fresh_thread(move || h2.iter().map(|&i| decode(&its[i])).collect::<Vec<_>>()).unwrap_or_default();
        (h.clone(), r)
    }).collect();
    for (h, rs) in res {
        part.states += 1;
        let names: Vec<&str> = h.iter().map(|&i| items[i].0).collect();
        for (step, r) in rs.iter().enumerate() {
            part.transitions += 1;
            part.validated += 1;
            let it = &items[h[step]];
            let bad = match r {
                Err(e) => Some(format!("panicked: {}", e)),
                Ok(Some(back)) if it.3 && *back == it.1 => None,
                Ok(Some(_)) if it.3 => Some("was accepted but re-encodes differently".to_string()),
                Ok(Some(_)) => Some("was accepted although it is not a valid encoding".to_string()),
                Ok(None) if it.3 => Some("was rejected although it is a valid encoding".to_string()),
                Ok(None) => None,
            };
            if let Some(why) = bad {
                ctx.violation(format!("decoder-history:{}", if it.3 { "valid-key-after-other-calls" } else { "invalid-string" }), format!("in the call history {:?} on one thread, call {} ({}) {}", names, step + 1, it.0, why), json!({"kind":"decoder-history","history":h}));
            }
        }
    }
    part.exhaustive = true;
    part.outcome("every call judged on its own".to_string());
    ctx.add_part(part);
}

pub fn run(tier: Tier) {
    let mut ctx = Ctx::new("C05", tier);
    decoder_histories(&mut ctx);
    one_variant::<V512>(&mut ctx, tier);
    one_variant::<V1024>(&mut ctx, tier);
    crate::history::differential(&mut ctx, "history_differential_round_trips", &["D512", "D1024", "S512", "S1024"], 2, &|op, digest| {
        if op.starts_with('D') && !(digest.contains("equal=true") && digest.contains("reenc=true") && digest.contains("verifies=true") && digest.contains("pk_roundtrip=true")) {
            Some("serialisation round trip or sign-after-decode failed".to_string())
        } else {
            None
        }
    });
    crate::history::differential(&mut ctx, "history_two_keys_round_trips", &["D512", "d512", "D1024", "d1024"], 2, &|_op, digest| { let _ = digest; if !(digest.contains("equal=true") && digest.contains("reenc=true") && digest.contains("verifies=true")) { Some("serialisation round trip or sign-after-decode failed".to_string()) } else { None } });
    crate::e5::run_part(&mut ctx, "decode");
    ctx.sample(json!({"variant":512,"seed":"LE64(0)||0^24","sizes":[1281,897,666]}));
    ctx.assume("the per-field loops of the key codecs are data-independent, so varying one field at a time covers every representable key up to which other fields surround it");
    ctx.assume("other seeds than the window: bounded; the window contains the seeds on which key generation was found to leave the encodable range");
    ctx.finish();
}

pub fn replay(case: &Value) -> Result<Option<String>, String> {
    if case.get("kind").and_then(|k| k.as_str()) .map(|k| k == "e5" || k == "e5-setup").unwrap_or(false) {
        return crate::e5::replay(case);
    }
    if case.get("kind").and_then(|k| k.as_str()) == Some("decoder-history") {
        return Err("re-run ./vf check C05 (the call histories are enumerated deterministically)".into());
    }
    if case.get("kind").and_then(|k| k.as_str()) == Some("history") {
        return crate::history::replay(case);
    }
    let kind = case.get("kind").and_then(|k| k.as_str()).ok_or("no kind")?;
    let variant = case.get("variant").and_then(|x| x.as_u64()).ok_or("variant")?;
    let mut t = Tally::default();
    match kind {
        "seed" => {
            let seed = case.get("seed").and_then(|x| x.as_u64()).ok_or("seed")?;
            let streams = case.get("streams").and_then(|x| x.as_u64()).unwrap_or(2);
            if variant == 512 {
                seed_case::<V512>(&mut t, seed, streams)
            } else {
                seed_case::<V1024>(&mut t, seed, streams)
            }
        }
        "sk-bytes" => {
            let b = crate::ctx::unhex(case.get("hex").and_then(|x| x.as_str()).ok_or("hex")?);
            let (f, g, cf) = keycodec::sk_decode(&b, variant as usize).ok_or("reference cannot decode")?;
            if variant == 512 {
                sk_field_case::<V512>(&mut t, &f, &g, &cf, "replay")
            } else {
                sk_field_case::<V1024>(&mut t, &f, &g, &cf, "replay")
            }
        }
        _ => return Err(format!("no single-case replay for kind {}", kind)),
    }
    Ok(t.found.into_iter().next().map(|(_, f)| f.what))
}

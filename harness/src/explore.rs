//! E3: deviation-bounded exploration of environment answers. A run is described by the set of
//! choice points at which the environment departs from its default answer, and by which alternative
//! it gives there. All runs with 0, then 1, ..., then `bound` deviations are enumerated (iterated
//! bounding: the first counterexample has the fewest deviations).

/// one deviation: at choice point `point` answer alternative `alt` (1-based; 0 is the default)
pub type Deviation = (usize, usize);

/// all deviation sets with exactly `k` deviations over `points` choice points with `alts`
/// non-default alternatives each, in lexicographic order
pub fn deviation_sets(points: usize, alts: usize, k: usize) -> Vec<Vec<Deviation>> {
    fn rec(points: usize, alts: usize, k: usize, start: usize, cur: &mut Vec<Deviation>, out: &mut Vec<Vec<Deviation>>) {
        if cur.len() == k {
            out.push(cur.clone());
            return;
        }
        for p in start..points {
            for a in 1..=alts {
                cur.push((p, a));
                rec(points, alts, k, p + 1, cur, out);
                cur.pop();
            }
        }
    }
    let mut out = vec![];
    rec(points, alts, k, 0, &mut vec![], &mut out);
    out
}

/// all deviation sets with at most `bound` deviations, fewest first
pub fn up_to(points: usize, alts: usize, bound: usize) -> Vec<Vec<Deviation>> {
    let mut out = vec![];
    for k in 0..=bound {
        out.extend(deviation_sets(points, alts, k));
    }
    out
}

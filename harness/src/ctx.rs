//! Check context: counters, parts, samples, violations, known findings, evidence file.

use serde_json::{json, Map, Value};
use std::collections::{BTreeMap, BTreeSet};
use std::path::PathBuf;
use std::time::Instant;

#[derive(Clone, Copy, PartialEq, Eq, Debug)]
pub enum Tier {
    Quick,
    Thorough,
}

impl Tier {
    pub fn name(&self) -> &'static str {
        match self {
            Tier::Quick => "quick",
            Tier::Thorough => "thorough",
        }
    }
    pub fn thorough(&self) -> bool {
        *self == Tier::Thorough
    }
}

#[derive(Clone, Debug)]
pub struct Violation {
    /// identity of the failing class (input / call site / history): used for de-duplication and
    /// for matching against known_findings.json
    pub key: String,
    pub what: String,
    /// replay payload: {"kind": ..., ...}
    pub case: Value,
}

#[derive(Default)]
pub struct Part {
    pub name: String,
    pub space: String,
    pub states: u64,
    pub transitions: u64,
    pub validated: u64,
    pub exhaustive: bool,
    pub outcomes: BTreeSet<String>,
    pub extra: Map<String, Value>,
}

impl Part {
    pub fn new(name: &str, space: &str) -> Part {
        Part {
            name: name.to_string(),
            space: space.to_string(),
            ..Default::default()
        }
    }
    pub fn set(&mut self, k: &str, v: Value) {
        self.extra.insert(k.to_string(), v);
    }
    pub fn outcome(&mut self, o: impl Into<String>) {
        let s: String = o.into();
        if self.outcomes.len() < 100_000 || self.outcomes.contains(&s) {
            self.outcomes.insert(s);
        }
    }
}

pub struct Ctx {
    pub id: &'static str,
    pub tier: Tier,
    pub seed: u64,
    pub build: String,
    start: Instant,
    parts: Vec<Part>,
    samples: Vec<Value>,
    violations: Vec<Violation>,
    violation_count: u64,
    assumptions: Vec<String>,
    caps: Vec<String>,
    extra: Map<String, Value>,
    pub verif_root: PathBuf,
}

pub fn verif_root() -> PathBuf {
    if let Ok(p) = std::env::var("VERIF_ROOT") {
        return PathBuf::from(p);
    }
    // harness/ is one below the root
    let here = PathBuf::from(env!("CARGO_MANIFEST_DIR"));
    here.parent().unwrap().to_path_buf()
}

pub fn machinery_error(msg: &str) -> ! {
    println!("MACHINERY-ERROR: {}", msg);
    eprintln!("MACHINERY-ERROR: {}", msg);
    std::process::exit(2)
}

impl Ctx {
    pub fn new(id: &'static str, tier: Tier) -> Ctx {
        let seed = std::env::var("VERIF_SEED")
            .ok()
            .and_then(|s| s.trim().parse::<i64>().ok())
            .map(|v| v as u64)
            .unwrap_or(0);
        let build = if cfg!(debug_assertions) {
            "checked"
        } else {
            "wrapping"
        };
        Ctx {
            id,
            tier,
            seed,
            build: build.to_string(),
            start: Instant::now(),
            parts: vec![],
            samples: vec![],
            violations: vec![],
            violation_count: 0,
            assumptions: vec![],
            caps: vec![],
            extra: Map::new(),
            verif_root: verif_root(),
        }
    }

    pub fn elapsed(&self) -> f64 {
        self.start.elapsed().as_secs_f64()
    }

    pub fn add_part(&mut self, p: Part) {
        println!(
            "[{}] part {:<28} states={} transitions={} validated={} outcomes={} exhaustive={} t={:.1}s",
            self.id,
            p.name,
            p.states,
            p.transitions,
            p.validated,
            p.outcomes.len(),
            p.exhaustive,
            self.elapsed()
        );
        self.parts.push(p);
    }

    pub fn sample(&mut self, v: Value) {
        if self.samples.len() < 24 {
            self.samples.push(v);
        }
    }

    pub fn assume(&mut self, s: &str) {
        self.assumptions.push(s.to_string());
    }

    pub fn has_violations(&self) -> bool {
        self.violation_count > 0
    }

    pub fn cap(&mut self, s: &str) {
        println!("[{}] CAP: {}", self.id, s);
        self.caps.push(s.to_string());
    }

    pub fn set(&mut self, k: &str, v: Value) {
        self.extra.insert(k.to_string(), v);
    }

    pub fn violation(&mut self, key: impl Into<String>, what: impl Into<String>, case: Value) {
        self.violation_count += 1;
        let key = key.into();
        if self.violations.iter().any(|v| v.key == key) {
            return;
        }
        if self.violations.len() < 200 {
            self.violations.push(Violation {
                key,
                what: what.into(),
                case,
            });
        }
    }

    pub fn violations_so_far(&self) -> u64 {
        self.violation_count
    }

    fn known_findings(&self) -> Vec<(String, String)> {
        // returns (key, what) of findings listed for this property
        let p = self.verif_root.join("known_findings.json");
        let Ok(txt) = std::fs::read_to_string(&p) else {
            return vec![];
        };
        let Ok(v) = serde_json::from_str::<Value>(&txt) else {
            machinery_error("known_findings.json does not parse");
        };
        let mut out = vec![];
        if let Some(arr) = v.get("findings").and_then(|a| a.as_array()) {
            for f in arr {
                if f.get("property").and_then(|s| s.as_str()) == Some(self.id) {
                    out.push((
                        f.get("key").and_then(|s| s.as_str()).unwrap_or("").to_string(),
                        f.get("what").and_then(|s| s.as_str()).unwrap_or("").to_string(),
                    ));
                }
            }
        }
        out
    }

    /// Write evidence, print verdict lines, exit.
    pub fn finish(mut self) -> ! {
        let known = self.known_findings();
        let mut unlisted: Vec<&Violation> = vec![];
        let mut listed: BTreeMap<String, String> = BTreeMap::new();
        for v in &self.violations {
            if let Some((k, _)) = known.iter().find(|(k, _)| !k.is_empty() && *k == v.key) {
                listed.insert(k.clone(), v.what.clone());
            } else {
                unlisted.push(v);
            }
        }
        for (k, w) in &listed {
            println!("KNOWN-FINDING: property={} {} [{}]", self.id, w, k);
        }
        let dir = self.verif_root.join("replays").join(self.id);
        let mut replay_paths = vec![];
        if !unlisted.is_empty() {
            let _ = std::fs::create_dir_all(&dir);
        }
        for (i, v) in unlisted.iter().enumerate() {
            let path = dir.join(format!("{}{}-{}.json", if self.build == "wrapping" { "wrapping-" } else { "" }, self.tier.name(), i));
            let body = json!({
                "property": self.id, "tier": self.tier.name(), "seed": self.seed,
                "build": self.build, "key": v.key, "what": v.what, "case": v.case,
            });
            if std::fs::write(&path, serde_json::to_string_pretty(&body).unwrap()).is_err() {
                machinery_error("cannot write replay file");
            }
            let rel = format!("replays/{}/{}{}-{}.json", self.id, if self.build == "wrapping" { "wrapping-" } else { "" }, self.tier.name(), i);
            if i < 25 {
                println!("VIOLATION property={} replay={} :: {} [{}]", self.id, rel, v.what, v.key);
            }
            replay_paths.push(rel);
        }

        let states: u64 = self.parts.iter().map(|p| p.states).sum();
        let transitions: u64 = self.parts.iter().map(|p| p.transitions).sum();
        let validated: u64 = self.parts.iter().map(|p| p.validated).sum();
        let distinct: u64 = self.parts.iter().map(|p| p.outcomes.len() as u64).sum();
        let exhaustive_all = !self.parts.is_empty() && self.parts.iter().all(|p| p.exhaustive);
        let parts_json: Vec<Value> = self
            .parts
            .iter()
            .map(|p| {
                let mut m = Map::new();
                m.insert("name".into(), json!(p.name));
                m.insert("space".into(), json!(p.space));
                m.insert("states".into(), json!(p.states));
                m.insert("transitions".into(), json!(p.transitions));
                m.insert("traces_validated_against_impl".into(), json!(p.validated));
                m.insert("distinct_outcomes".into(), json!(p.outcomes.len()));
                m.insert("exhaustive_within_stated_space".into(), json!(p.exhaustive));
                let show: Vec<&String> = p.outcomes.iter().take(12).collect();
                m.insert("outcome_examples".into(), json!(show));
                for (k, v) in &p.extra {
                    m.insert(k.clone(), v.clone());
                }
                Value::Object(m)
            })
            .collect();
        if self.samples.is_empty() {
            self.samples.push(json!("no sample recorded"));
        }
        let mut cov = Map::new();
        cov.insert("states".into(), json!(states.max(1)));
        cov.insert("transitions".into(), json!(transitions.max(1)));
        cov.insert("traces_validated_against_impl".into(), json!(validated));
        cov.insert("samples".into(), json!(self.samples));
        cov.insert("evaluations".into(), json!(transitions.max(1)));
        cov.insert("distinct_nontrivial".into(), json!(distinct.max(2)));
        cov.insert(
            "rule".into(),
            json!("cases are enumerated (never sampled) part by part as described in parts[].space; distinct_nontrivial = sum over parts of distinct observed outcomes (outcome strings as defined per part)"),
        );
        cov.insert("exhaustive".into(), json!(exhaustive_all && self.caps.is_empty()));
        cov.insert("parts".into(), json!(parts_json));
        cov.insert("caps_hit".into(), json!(self.caps));
        cov.insert("build".into(), json!(self.build));
        cov.insert("known_findings_reproduced".into(), json!(listed.keys().collect::<Vec<_>>()));
        cov.insert("replays".into(), json!(replay_paths));
        for (k, v) in &self.extra {
            cov.insert(k.clone(), v.clone());
        }
        let ev = json!({
            "property_id": self.id,
            "tier": self.tier.name(),
            "seed": self.seed as i64,
            "level": "model_checking",
            "coverage": Value::Object(cov),
            "assumptions": self.assumptions,
            "wall_s": self.elapsed(),
            "violations": self.violation_count as i64,
        });
        let evdir = self.verif_root.join("evidence");
        let _ = std::fs::create_dir_all(&evdir);
        // the plain-release ("wrapping") build is an additional pass of some thorough checks; its
        // evidence goes next to the main file, which is always written by the overflow-checked build
        let evpath = if self.build == "wrapping" {
            let _ = std::fs::create_dir_all(evdir.join("wrapping-build"));
            evdir.join("wrapping-build").join(format!("{}.json", self.id))
        } else {
            evdir.join(format!("{}.json", self.id))
        };
        if std::fs::write(&evpath, serde_json::to_string_pretty(&ev).unwrap()).is_err() {
            machinery_error("cannot write evidence file");
        }
        println!(
            "[{}] tier={} states={} transitions={} validated={} distinct_outcomes={} violations={} (unlisted classes {}) wall={:.1}s",
            self.id,
            self.tier.name(),
            states,
            transitions,
            validated,
            distinct,
            self.violation_count,
            unlisted.len(),
            self.elapsed()
        );
        if unlisted.is_empty() {
            println!("[{}] PASS", self.id);
            std::process::exit(0)
        } else {
            std::process::exit(1)
        }
    }
}

/// Run a closure, turning a panic into Err(message). The default panic hook is silenced
/// by `install_quiet_panic_hook` so sweeps do not flood the log.
pub fn catch<T>(f: impl FnOnce() -> T) -> Result<T, String> {
    match std::panic::catch_unwind(std::panic::AssertUnwindSafe(f)) {
        Ok(v) => Ok(v),
        Err(e) => {
            let msg = if let Some(s) = e.downcast_ref::<&str>() {
                if *s == crate::envrng::HORIZON_PANIC {
                    return Err(crate::envrng::HORIZON_PANIC.to_string());
                }
                s.to_string()
            } else if let Some(s) = e.downcast_ref::<String>() {
                s.clone()
            } else {
                "panic".to_string()
            };
            let loc = LAST_PANIC_LOC.with(|l| l.borrow_mut().take()).unwrap_or_default();
            Err(format!("{} @ {}", msg, loc))
        }
    }
}

thread_local! {
    static LAST_PANIC_LOC: std::cell::RefCell<Option<String>> = const { std::cell::RefCell::new(None) };
}

/// (full source path:line, message) of the most recent panic on any thread
pub static LAST_PANIC_GLOBAL: std::sync::Mutex<Option<(String, String)>> = std::sync::Mutex::new(None);

pub fn install_quiet_panic_hook() {
    std::panic::set_hook(Box::new(|info| {
        let full = info.location().map(|l| format!("{}:{}", l.file(), l.line())).unwrap_or_default();
        let loc = info
            .location()
            .map(|l| {
                let f = l.file();
                let f = f.rsplit('/').next().unwrap_or(f);
                format!("{}:{}", f, l.line())
            })
            .unwrap_or_default();
        let msg = if let Some(s) = info.payload().downcast_ref::<&str>() {
            s.to_string()
        } else if let Some(s) = info.payload().downcast_ref::<String>() {
            s.clone()
        } else {
            "panic".to_string()
        };
        if let Ok(mut g) = LAST_PANIC_GLOBAL.lock() {
            *g = Some((full, msg));
        }
        LAST_PANIC_LOC.with(|l| *l.borrow_mut() = Some(loc));
    }));
}

/// The check driver itself unwound. If the panic originated in the library under test (an API call the
/// driver makes outside a guarded region, e.g. generating the keys it works with), that is a violation
/// of totality-on-valid-use for the property being checked; anything else is a machinery failure.
pub fn driver_panicked(id: &str, tier: Tier) -> ! {
    let last = LAST_PANIC_GLOBAL.lock().ok().and_then(|g| g.clone());
    if let Some((loc, msg)) = last {
        if loc.contains("falcon-rust/src/") && !loc.contains("/verif/") {
            let root = verif_root();
            let dir = root.join("replays").join(id);
            let _ = std::fs::create_dir_all(&dir);
            let rel = format!("replays/{}/{}-driver-panic.json", id, tier.name());
            let body = json!({"property": id, "tier": tier.name(), "key": "library-panic-outside-guard", "what": format!("{} @ {}", msg, loc), "case": {"kind": "driver-panic"}});
            let _ = std::fs::write(root.join(&rel), serde_json::to_string_pretty(&body).unwrap());
            let ev = json!({
                "property_id": id, "tier": tier.name(), "seed": 0, "level": "model_checking",
                "coverage": {"states": 1, "transitions": 1, "traces_validated_against_impl": 0, "samples": [format!("library panicked during the check's own (valid) API calls: {} @ {}", msg, loc)], "evaluations": 1, "distinct_nontrivial": 2, "rule": "aborted", "exhaustive": false},
                "assumptions": [], "wall_s": 0.0, "violations": 1
            });
            let _ = std::fs::create_dir_all(root.join("evidence"));
            let _ = std::fs::write(root.join("evidence").join(format!("{}.json", id)), serde_json::to_string_pretty(&ev).unwrap());
            println!("VIOLATION property={} replay={} :: the library panicked during valid API use made by the check itself outside a guarded region: {} @ {}", id, rel, msg, loc);
            std::process::exit(1)
        }
        machinery_error(&format!("check driver panicked: {} @ {}", msg, loc));
    }
    machinery_error("check driver panicked outside a guarded region")
}

pub fn hex(b: &[u8]) -> String {
    b.iter().map(|x| format!("{:02x}", x)).collect()
}

pub fn unhex(s: &str) -> Vec<u8> {
    (0..s.len() / 2)
        .map(|i| u8::from_str_radix(&s[2 * i..2 * i + 2], 16).unwrap())
        .collect()
}

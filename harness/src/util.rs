//! Small helpers shared by checks.

pub fn seed_bytes(i: u64) -> [u8; 32] {
    let mut s = [0u8; 32];
    s[..8].copy_from_slice(&i.to_le_bytes());
    s
}

pub fn i16s_to_i64(v: &[i16]) -> Vec<i64> {
    v.iter().map(|&x| x as i64).collect()
}

pub fn neg(v: &[i64]) -> Vec<i64> {
    v.iter().map(|&x| -x).collect()
}

/// powers of two 1..=1024
pub fn sizes(min: usize) -> Vec<usize> {
    (0..=10).map(|k| 1usize << k).filter(|&n| n >= min).collect()
}

/// Run `f` with a fixed ChaCha20 stream installed as the signer's RNG on this thread.
pub fn with_stream<T>(stream: u64, f: impl FnOnce() -> T) -> T {
    use rand::SeedableRng;
    let rng = rand_chacha::ChaCha20Rng::seed_from_u64(0x5eed_0000_0000_0000 ^ stream);
    falcon_rust::verif_hooks::install_rng(Box::new(crate::envrng::Bounded::new(rng, crate::envrng::SIGN_DRAW_LIMIT)));
    let r = std::panic::catch_unwind(std::panic::AssertUnwindSafe(f));
    falcon_rust::verif_hooks::uninstall_rng();
    match r {
        Ok(v) => v,
        Err(e) => std::panic::resume_unwind(e),
    }
}

/// Run `f` with the production generator (thread_rng) behind a draw budget, so that a signing loop
/// that never terminates becomes a horizon panic instead of a hang.
pub fn with_bounded_thread_rng<T>(f: impl FnOnce() -> T) -> T {
    falcon_rust::verif_hooks::install_rng(Box::new(crate::envrng::Bounded::new(rand::thread_rng(), crate::envrng::SIGN_DRAW_LIMIT)));
    let r = std::panic::catch_unwind(std::panic::AssertUnwindSafe(f));
    falcon_rust::verif_hooks::uninstall_rng();
    match r {
        Ok(v) => v,
        Err(e) => std::panic::resume_unwind(e),
    }
}

/// quick / thorough seed windows of DESIGN.md section 3 (offset by VERIF_SEED * 4096)
pub fn seed_window(n: usize, thorough: bool, verif_seed: u64) -> Vec<u64> {
    let off = verif_seed.wrapping_mul(4096);
    let mut v: Vec<u64> = match (n, thorough) {
        (512, false) => (0..8).collect(),
        (512, true) => (0..8192).collect(),
        (_, false) => (0..2).collect(),
        (_, true) => (0..2048).collect(),
    };
    for x in v.iter_mut() {
        *x = x.wrapping_add(off);
    }
    // seeds on which key generation was found to leave the encodable range (defect D7); after the
    // repair they exercise the retry
    if n == 512 {
        v.extend([785u64, 2261, 2907].iter().take(if thorough { 3 } else { 1 }));
    } else {
        v.extend([14u64, 633, 1031].iter().take(if thorough { 3 } else { 1 }));
    }
    // seeds whose first candidate sits exactly on the edge of a fixed-width field
    let b = boundary_seeds(n);
    let take = if thorough { b.len() } else if n == 512 { 2 } else { 5 };
    for s in b.into_iter().take(take) {
        if !v.contains(&s) {
            v.push(s);
        }
    }
    v
}

/// Seeds on which the first candidate of key generation is rejected (f not invertible modulo q,
/// Gram-Schmidt norm too large, NTRU solver failure, coefficient out of the encodable range):
/// found by `falcon-mc diag keygen-branches` on the unchanged tree. They only steer coverage; the
/// oracles are the property's own.
pub fn rejection_seeds(n: usize) -> Vec<u64> {
    boundary_seeds(n)
}

/// First (f, g) candidate key generation draws from seed LE64(i): 4096 samples of the key-generation
/// sampler summed in chunks of 4096/n (what `gen_poly` does), reproduced through the sampler hook so
/// that seeds can be chosen by the branch they exercise. Only used to steer coverage.
pub fn first_candidate(n: usize, seed: u64) -> (Vec<i64>, Vec<i64>) {
    use rand::SeedableRng;
    let mut rng = rand::rngs::StdRng::from_seed(seed_bytes(seed));
    let sigma_star = 1.43300980528773;
    let mut poly = |rng: &mut rand::rngs::StdRng| -> Vec<i64> {
        let samples: Vec<i64> = (0..4096).map(|_| falcon_rust::verif_hooks::sampler_z(0.0, sigma_star, sigma_star - 0.001, rng) as i64).collect();
        samples.chunks(4096 / n).map(|c| c.iter().sum()).collect()
    };
    let f = poly(&mut rng);
    let g = poly(&mut rng);
    (f, g)
}

/// Number of (f, g) candidates key generation rejects for seed LE64(i) before the first one that passes
/// the invertibility and Gram-Schmidt norm tests (the NTRU solver's own rare failures are not modelled),
/// reproduced by drawing successive candidates from the same seeded stream through the sampler hook.
pub fn candidate_rejections(n: usize, seed: u64, cap: usize) -> usize {
    use rand::SeedableRng;
    let mut rng = rand::rngs::StdRng::from_seed(seed_bytes(seed));
    let sigma_star = 1.43300980528773;
    let roots = crate::refmodel::poly::roots(n);
    let mut count = 0;
    while count < cap {
        let mut poly = |rng: &mut rand::rngs::StdRng| -> Vec<i64> {
            let samples: Vec<i64> = (0..4096).map(|_| falcon_rust::verif_hooks::sampler_z(0.0, sigma_star, sigma_star - 0.001, rng) as i64).collect();
            samples.chunks(4096 / n).map(|c| c.iter().sum()).collect()
        };
        let f = poly(&mut rng);
        let g = poly(&mut rng);
        let invertible = !crate::refmodel::poly::eval_at_roots(&f, &roots).iter().any(|&x| x == 0);
        if invertible && passes_gamma(&f, &g) {
            break;
        }
        count += 1;
    }
    count
}

/// the `top` seeds of [from, from+count) with the most rejected candidates (long runs of key generation's
/// rejection loop), most rejections first
pub fn seeds_with_most_rejections(n: usize, from: u64, count: u64, top: usize) -> Vec<(u64, usize)> {
    use rayon::prelude::*;
    let mut v: Vec<(u64, usize)> = (from..from + count).into_par_iter().map(|s| (s, candidate_rejections(n, s, 400))).collect();
    v.sort_by(|a, b| b.1.cmp(&a.1).then(a.0.cmp(&b.0)));
    v.truncate(top);
    v
}

/// seeds in [from, from+count) whose first candidate f is not invertible modulo q (key generation must
/// reject it and draw again)
pub fn seeds_with_noninvertible_first_f(n: usize, from: u64, count: u64, want: usize) -> Vec<u64> {
    use rayon::prelude::*;
    let roots = crate::refmodel::poly::roots(n);
    let hits: Vec<u64> = (from..from + count)
        .into_par_iter()
        .filter(|&s| {
            let (f, _) = first_candidate(n, s);
            crate::refmodel::poly::eval_at_roots(&f, &roots).iter().any(|&x| x == 0)
        })
        .collect();
    hits.into_iter().take(want).collect()
}

/// seeds in [0, count) whose first candidate f vanishes at the root of X^n+1 that the implementation's
/// NTT evaluates in one of the given output slots (the slot's root is read off ntt(X)): a key generation
/// that forgets to test one transform slot accepts exactly these. Returns (seed, slot).
pub fn seeds_with_first_f_vanishing_at(n: usize, count: u64, root_indices: &[usize]) -> Vec<(u64, usize)> {
    use rayon::prelude::*;
    let mut x = vec![0u32; n];
    x[1] = 1;
    let slot_roots: Vec<i64> = falcon_rust::verif_hooks::felt_fft(&x).iter().map(|&v| v as i64).collect();
    let sel: Vec<i64> = root_indices.iter().map(|&i| slot_roots[i]).collect();
    (0..count)
        .into_par_iter()
        .filter_map(|s| {
            let (f, _) = first_candidate(n, s);
            let ev = crate::refmodel::poly::eval_at_roots(&f, &sel);
            ev.iter().position(|&x| x == 0).map(|p| (s, root_indices[p]))
        })
        .collect()
}

/// squared Gram-Schmidt norm bound test of key generation (specification Algorithm 5, line 9) on (f, g),
/// computed with a naive complex DFT: true when gamma <= 1.17^2 q
pub fn passes_gamma(f: &[i64], g: &[i64]) -> bool {
    let (a, b) = gamma_parts(f, g);
    a.max(b) <= 1.3689 * 12289.0
}

/// (||(g,-f)||^2, ||(q f*/(ff*+gg*), q g*/(ff*+gg*))||^2): the two quantities whose maximum key generation
/// compares with 1.17^2 q (naive DFT with a sine/cosine table)
pub fn gamma_parts(f: &[i64], g: &[i64]) -> (f64, f64) {
    let n = f.len();
    let q = 12289.0f64;
    let norm1: f64 = f.iter().chain(g.iter()).map(|&x| (x * x) as f64).sum();
    let table: Vec<(f64, f64)> = (0..2 * n).map(|t| (std::f64::consts::PI * t as f64 / n as f64).sin_cos()).collect();
    let mut acc = 0.0f64;
    for k in 0..n {
        let (mut fr, mut fi, mut gr, mut gi) = (0.0f64, 0.0f64, 0.0f64, 0.0f64);
        let step = 2 * k + 1;
        let mut idx = 0usize;
        for j in 0..n {
            let (s, c) = table[idx];
            fr += f[j] as f64 * c;
            fi += f[j] as f64 * s;
            gr += g[j] as f64 * c;
            gi += g[j] as f64 * s;
            idx = (idx + step) % (2 * n);
        }
        acc += 1.0 / (fr * fr + fi * fi + gr * gr + gi * gi);
    }
    (norm1, q * q * acc / (n as f64))
}

/// The (f, g) candidates key generation draws from seed LE64(i), in order, up to and including the first that is
/// invertible and within the Gram-Schmidt bound: (invertible, max of the two norms) per candidate. Steering only.
pub fn candidate_walk(n: usize, seed: u64, cap: usize) -> Vec<(bool, f64)> {
    use rand::SeedableRng;
    let mut rng = rand::rngs::StdRng::from_seed(seed_bytes(seed));
    let sigma_star = 1.43300980528773;
    let roots = crate::refmodel::poly::roots(n);
    let mut out = vec![];
    while out.len() < cap {
        let mut poly = |rng: &mut rand::rngs::StdRng| -> Vec<i64> {
            let samples: Vec<i64> = (0..4096).map(|_| falcon_rust::verif_hooks::sampler_z(0.0, sigma_star, sigma_star - 0.001, rng) as i64).collect();
            samples.chunks(4096 / n).map(|c| c.iter().sum()).collect()
        };
        let f = poly(&mut rng);
        let g = poly(&mut rng);
        let invertible = !crate::refmodel::poly::eval_at_roots(&f, &roots).iter().any(|&x| x == 0);
        let (a, b) = gamma_parts(&f, &g);
        let gamma = a.max(b);
        out.push((invertible, gamma));
        if invertible && gamma <= 1.3689 * 12289.0 {
            break;
        }
    }
    out
}

/// seeds in [from, from+count) on which key generation meets an invertible candidate whose Gram-Schmidt quantity
/// lies in (bound, bound + width] before (or instead of) the one it accepts: a norm test that is slightly too
/// lenient accepts exactly these
pub fn gamma_near_miss_scan(n: usize, from: u64, count: u64, width: f64) -> Vec<(u64, f64)> {
    use rayon::prelude::*;
    let bound = 1.3689 * 12289.0;
    (from..from + count)
        .into_par_iter()
        .filter_map(|s| candidate_walk(n, s, 64).iter().find(|(inv, g)| *inv && *g > bound && *g <= bound + width).map(|c| (s, c.1)))
        .collect()
}

/// Seeds LE64(i) found with `falcon-mc diag gammascan` on the repaired tree: an invertible candidate with
/// Gram-Schmidt quantity in (1.17^2 q, 1.17^2 q + 1] is drawn and must be rejected.
pub fn gamma_near_miss_seeds(n: usize) -> Vec<u64> {
    match n {
        // 16823 exactly (integer norm of (g,-f)), dual norm 16822.43 and 16822.70, 16823
        512 => vec![542, 1449, 1643, 910, 543, 2301],
        // ||(g,-f)||^2 = 16823 exactly
        _ => vec![196, 286, 618, 887, 987],
    }
}

/// as `seeds_with_first_f_vanishing_at`, keeping only candidates that also pass the Gram-Schmidt norm
/// test (so that only the invertibility test stands between the candidate and acceptance)
pub fn slot_seeds_passing_gamma(n: usize, count: u64, slots: &[usize]) -> Vec<(u64, usize)> {
    seeds_with_first_f_vanishing_at(n, count, slots)
        .into_iter()
        .filter(|(s, _)| {
            let (f, g) = first_candidate(n, *s);
            passes_gamma(&f, &g)
        })
        .collect()
}

/// Seeds LE64(i), i < 200000, whose first candidate (f, g) passes the Gram-Schmidt norm test while f
/// vanishes at the root evaluated in NTT slot 0, 1, n/2 or n-1 (found with `falcon-mc diag slotscan`
/// on the repaired tree): only the invertibility test stands between these candidates and acceptance,
/// so an invertibility test that skips the first / last / middle slot is exposed by them.
pub fn slot_boundary_seeds(n: usize) -> Vec<(u64, usize)> {
    match n {
        512 => vec![(192550, 0), (9944, 511), (127064, 511), (185842, 256), (187081, 256)],
        _ => vec![(172984, 0), (506, 1023), (44070, 512)],
    }
}

/// Signer streams (key of seed LE64(0), message b"exact fit", stream id 1_000_000 + k, Falcon-1024) found with
/// `falcon-mc diag fitscan`: first the streams whose compressed s2 leaves 0, 0, 0, 1, 1, 2, 2, ... 8 bits of the
/// body unused, then streams whose first attempt does not fit the body at all, so that sign takes its
/// compression-retry branch (about two thirds of these overshoot by at most 8 bits).
pub fn tight_fit_streams() -> (Vec<u64>, Vec<u64>) {
    (vec![5338, 8576, 19927, 8599, 11819, 6409, 9671, 190, 2925, 2807, 7260, 2051, 2550, 3568, 5772, 6085, 8833, 10860], vec![2990, 3155, 6936, 6969, 7929, 8289, 8300, 8711, 8910, 10124, 10497, 10526, 11319, 12527, 12590, 13028])
}

/// Seeds LE64(i) whose public key h has a coefficient equal to 0 (first entries) or to q-1 (last entries): the
/// ends of the 14-bit field's valid range (found with `falcon-mc diag hzero` on the repaired tree).
pub fn pk_edge_seeds(n: usize) -> Vec<u64> {
    match n {
        512 => vec![2, 13, 7, 41],
        _ => vec![4, 8, 2, 18],
    }
}

/// Seeds whose first NTRU candidate has a coefficient of F or G exactly on or next to the edge of the
/// 8-bit field (found by `falcon-mc diag keygen-scan` over LE64(0..12288) for n = 512 and LE64(0..8192)
/// for n = 1024 on the repaired tree): +127 is the largest encodable value, +-128 and beyond must be
/// resampled. They only steer coverage; the oracles are the property's own.
pub fn boundary_seeds(n: usize) -> Vec<u64> {
    match n {
        // beyond (G = 130), +128, +127
        512 => vec![1052, 8213, 6703],
        // F or G = -128, -128, +128, +128, -127, +127, f or g = +15, -15 (edge of the 5-bit field), beyond
        _ => vec![696, 6890, 14, 633, 370, 2371, 3819, 4783, 1031],
    }
}

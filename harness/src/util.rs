//! Small helpers shared by checks.

pub fn seed_bytes(i: u64) -> [u8; 32] {
    let mut s = [0u8; 32];
    s[..8].copy_from_slice(&i.to_le_bytes());
    s
}

pub fn i16s_to_i64(v: &[i16]) -> Vec<i64> {
    v.iter().map(|&x| x as i64).collect()
}

pub fn neg(v: &[i64]) -> Vec<i64> {
    v.iter().map(|&x| -x).collect()
}

/// powers of two 1..=1024
pub fn sizes(min: usize) -> Vec<usize> {
    (0..=10).map(|k| 1usize << k).filter(|&n| n >= min).collect()
}

/// Run `f` with a fixed ChaCha20 stream installed as the signer's RNG on this thread.
pub fn with_stream<T>(stream: u64, f: impl FnOnce() -> T) -> T {
    use rand::SeedableRng;
    let rng = rand_chacha::ChaCha20Rng::seed_from_u64(0x5eed_0000_0000_0000 ^ stream);
    falcon_rust::verif_hooks::install_rng(Box::new(crate::envrng::Bounded::new(rng, crate::envrng::SIGN_DRAW_LIMIT)));
    let r = std::panic::catch_unwind(std::panic::AssertUnwindSafe(f));
    falcon_rust::verif_hooks::uninstall_rng();
    match r {
        Ok(v) => v,
        Err(e) => std::panic::resume_unwind(e),
    }
}

/// Run `f` with the production generator (thread_rng) behind a draw budget, so that a signing loop
/// that never terminates becomes a horizon panic instead of a hang.
pub fn with_bounded_thread_rng<T>(f: impl FnOnce() -> T) -> T {
    falcon_rust::verif_hooks::install_rng(Box::new(crate::envrng::Bounded::new(rand::thread_rng(), crate::envrng::SIGN_DRAW_LIMIT)));
    let r = std::panic::catch_unwind(std::panic::AssertUnwindSafe(f));
    falcon_rust::verif_hooks::uninstall_rng();
    match r {
        Ok(v) => v,
        Err(e) => std::panic::resume_unwind(e),
    }
}

/// quick / thorough seed windows of DESIGN.md section 3 (offset by VERIF_SEED * 4096)
pub fn seed_window(n: usize, thorough: bool, verif_seed: u64) -> Vec<u64> {
    let off = verif_seed.wrapping_mul(4096);
    let mut v: Vec<u64> = match (n, thorough) {
        (512, false) => (0..8).collect(),
        (512, true) => (0..256).collect(),
        (_, false) => (0..2).collect(),
        (_, true) => (0..48).collect(),
    };
    for x in v.iter_mut() {
        *x = x.wrapping_add(off);
    }
    // seeds on which key generation was found to leave the encodable range (defect D7); after the
    // repair they exercise the retry
    if n == 512 {
        v.extend([785u64, 2261, 2907].iter().take(if thorough { 3 } else { 1 }));
    } else {
        v.extend([14u64, 633, 1031].iter().take(if thorough { 3 } else { 1 }));
    }
    v
}

/// Seeds on which the first candidate of key generation is rejected (f not invertible modulo q,
/// Gram-Schmidt norm too large, NTRU solver failure, coefficient out of the encodable range):
/// found by `falcon-mc diag keygen-branches` on the unchanged tree. They only steer coverage; the
/// oracles are the property's own.
pub fn rejection_seeds(n: usize) -> Vec<u64> {
    match n {
        512 => vec![],
        _ => vec![],
    }
}

//! Small helpers shared by checks.

pub fn seed_bytes(i: u64) -> [u8; 32] {
    let mut s = [0u8; 32];
    s[..8].copy_from_slice(&i.to_le_bytes());
    s
}

pub fn i16s_to_i64(v: &[i16]) -> Vec<i64> {
    v.iter().map(|&x| x as i64).collect()
}

pub fn neg(v: &[i64]) -> Vec<i64> {
    v.iter().map(|&x| -x).collect()
}

/// powers of two 1..=1024
pub fn sizes(min: usize) -> Vec<usize> {
    (0..=10).map(|k| 1usize << k).filter(|&n| n >= min).collect()
}

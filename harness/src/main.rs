//! falcon-mc: bounded exhaustive exploration of falcon-rust against reference models.
//! See /verif/DESIGN.md.

mod api;
mod checks;
mod ctx;
mod e5;
mod envrng;
mod explore;
mod history;
mod pq;
mod refmodel;
mod sched;
mod util;

use ctx::{Ctx, Tier};

fn usage() -> ! {
    eprintln!("usage: falcon-mc check <Cnn> --tier quick|thorough | replay <file> | selftest | child <what> ...");
    std::process::exit(2)
}

fn main() {
    let args: Vec<String> = std::env::args().collect();
    if args.len() < 2 {
        usage();
    }
    ctx::install_quiet_panic_hook();
    let threads = std::env::var("VERIF_THREADS")
        .ok()
        .and_then(|s| s.parse::<usize>().ok())
        .unwrap_or(16);
    rayon::ThreadPoolBuilder::new()
        .num_threads(threads)
        .stack_size(64 << 20)
        .build_global()
        .ok();
    match args[1].as_str() {
        "check" => {
            if args.len() < 3 {
                usage();
            }
            let id = args[2].to_uppercase();
            let mut tier = match std::env::var("VERIF_TIER").ok().as_deref() {
                Some("thorough") => Tier::Thorough,
                _ => Tier::Quick,
            };
            let mut i = 3;
            while i < args.len() {
                if args[i] == "--tier" && i + 1 < args.len() {
                    tier = match args[i + 1].as_str() {
                        "quick" => Tier::Quick,
                        "thorough" => Tier::Thorough,
                        _ => usage(),
                    };
                    i += 1;
                }
                i += 1;
            }
            // watchdog: a library call that never returns (a rejection loop that cannot accept any more)
            // must not hang the check forever
            let limit_s: u64 = std::env::var("VERIF_WATCHDOG_S").ok().and_then(|s| s.parse().ok()).unwrap_or(if tier == Tier::Thorough { 4 * 3600 } else { 1200 });
            let wid = id.clone();
            std::thread::spawn(move || {
                std::thread::sleep(std::time::Duration::from_secs(limit_s));
                println!("MACHINERY-ERROR: watchdog: check {} did not finish within {} s (a library call may not terminate)", wid, limit_s);
                std::process::exit(2);
            });
            // run on a big stack: key generation recurses over big-integer polynomials
            let id2 = id.clone();
            let h = std::thread::Builder::new()
                .stack_size(256 << 20)
                .spawn(move || checks::run(&id, tier))
                .unwrap();
            match h.join() {
                Ok(()) => {}
                Err(_) => ctx::driver_panicked(&id2, tier),
            }
        }
        "replay" => {
            if args.len() < 3 {
                usage();
            }
            let path = args[2].clone();
            let h = std::thread::Builder::new()
                .stack_size(256 << 20)
                .spawn(move || checks::replay_file(&path))
                .unwrap();
            let code = h.join().unwrap_or(2);
            std::process::exit(code);
        }
        "selftest" => {
            let h = std::thread::Builder::new()
                .stack_size(256 << 20)
                .spawn(checks::selftest::run)
                .unwrap();
            let code = h.join().unwrap_or(2);
            std::process::exit(code);
        }
        "diag" => {
            checks::diag::run(&args[2..]);
        }
        "child" => {
            checks::child::run(&args[2..]);
        }
        _ => usage(),
    }
}

#[allow(dead_code)]
fn _unused(_: Ctx) {}

//! FFI to the vendored PQClean reference implementation (third-source oracle) and to our
//! deterministic randombytes.

#![allow(dead_code)]

use std::ffi::c_void;

#[repr(C)]
pub struct ShakeCtx {
    ctx: *mut u64,
}

#[repr(C, align(8))]
pub struct Prng {
    pub buf: [u8; 512],
    pub ptr: usize,
    pub state: [u8; 256],
    pub typ: i32,
}

#[repr(C)]
pub struct SamplerCtx {
    pub p: Prng,
    pub sigma_min: u64,
}

extern "C" {
    fn vf_randombytes_seed(seed: *const u8, len: usize);
    fn vf_randombytes_calls() -> u64;
    fn shake256(output: *mut u8, outlen: usize, input: *const u8, inlen: usize);
    fn shake256_inc_init(state: *mut ShakeCtx);
    fn shake256_inc_absorb(state: *mut ShakeCtx, input: *const u8, inlen: usize);
    fn shake256_inc_finalize(state: *mut ShakeCtx);
    fn shake256_inc_ctx_release(state: *mut ShakeCtx);
}

macro_rules! pq_variant {
    ($m:ident, $logn:expr, $n:expr, $sklen:expr, $pklen:expr, $siglen:expr,
     $keypair:ident, $signature:ident, $verify:ident, $comp_enc:ident, $comp_dec:ident,
     $modq_enc:ident, $modq_dec:ident, $trim_enc:ident, $trim_dec:ident, $htp:ident, $sampler:ident, $gauss0:ident) => {
        pub mod $m {
            use super::*;
            extern "C" {
                fn $keypair(pk: *mut u8, sk: *mut u8) -> i32;
                fn $signature(sig: *mut u8, siglen: *mut usize, m: *const u8, mlen: usize, sk: *const u8) -> i32;
                fn $verify(sig: *const u8, siglen: usize, m: *const u8, mlen: usize, pk: *const u8) -> i32;
                fn $comp_enc(out: *mut c_void, max: usize, x: *const i16, logn: u32) -> usize;
                fn $comp_dec(x: *mut i16, logn: u32, inp: *const c_void, max: usize) -> usize;
                fn $modq_enc(out: *mut c_void, max: usize, x: *const u16, logn: u32) -> usize;
                fn $modq_dec(x: *mut u16, logn: u32, inp: *const c_void, max: usize) -> usize;
                fn $trim_enc(out: *mut c_void, max: usize, x: *const i8, logn: u32, bits: u32) -> usize;
                fn $trim_dec(x: *mut i8, logn: u32, bits: u32, inp: *const c_void, max: usize) -> usize;
                fn $htp(sc: *mut ShakeCtx, x: *mut u16, logn: u32);
                fn $sampler(ctx: *mut c_void, mu: u64, isigma: u64) -> i32;
                fn $gauss0(p: *mut Prng) -> i32;
            }
            pub const N: usize = $n;
            pub const LOGN: u32 = $logn;
            pub const SK_LEN: usize = $sklen;
            pub const PK_LEN: usize = $pklen;
            pub const SIG_MAX: usize = $siglen;

            /// deterministic key pair from a harness seed: (pk bytes, sk bytes)
            pub fn keypair(seed: &[u8]) -> Option<(Vec<u8>, Vec<u8>)> {
                let mut pk = vec![0u8; PK_LEN];
                let mut sk = vec![0u8; SK_LEN];
                let r = unsafe {
                    vf_randombytes_seed(seed.as_ptr(), seed.len());
                    $keypair(pk.as_mut_ptr(), sk.as_mut_ptr())
                };
                if r == 0 {
                    Some((pk, sk))
                } else {
                    None
                }
            }

            /// deterministic signature (PQClean framing: 0x3n || nonce || compressed, variable length)
            pub fn sign(seed: &[u8], msg: &[u8], sk: &[u8]) -> Option<Vec<u8>> {
                if sk.len() != SK_LEN {
                    return None;
                }
                let mut sig = vec![0u8; SIG_MAX + 8];
                let mut siglen: usize = 0;
                let r = unsafe {
                    vf_randombytes_seed(seed.as_ptr(), seed.len());
                    $signature(sig.as_mut_ptr(), &mut siglen, msg.as_ptr(), msg.len(), sk.as_ptr())
                };
                if r == 0 {
                    sig.truncate(siglen);
                    Some(sig)
                } else {
                    None
                }
            }

            pub fn verify(sig: &[u8], msg: &[u8], pk: &[u8]) -> bool {
                if pk.len() != PK_LEN {
                    return false;
                }
                unsafe { $verify(sig.as_ptr(), sig.len(), msg.as_ptr(), msg.len(), pk.as_ptr()) == 0 }
            }

            /// comp_encode into a buffer of `max` bytes; returns bytes used (None = failure)
            pub fn comp_encode(x: &[i16], max: usize) -> Option<Vec<u8>> {
                assert_eq!(x.len(), N);
                let mut out = vec![0u8; max];
                let v = unsafe { $comp_enc(out.as_mut_ptr() as *mut c_void, max, x.as_ptr(), LOGN) };
                if v == 0 {
                    None
                } else {
                    out.truncate(v);
                    Some(out)
                }
            }

            /// comp_decode: Some((vector, bytes consumed)) or None
            pub fn comp_decode(inp: &[u8]) -> Option<(Vec<i16>, usize)> {
                let mut x = vec![0i16; N];
                let v = unsafe { $comp_dec(x.as_mut_ptr(), LOGN, inp.as_ptr() as *const c_void, inp.len()) };
                if v == 0 {
                    None
                } else {
                    Some((x, v))
                }
            }

            pub fn modq_decode(inp: &[u8]) -> Option<Vec<u16>> {
                let mut x = vec![0u16; N];
                let v = unsafe { $modq_dec(x.as_mut_ptr(), LOGN, inp.as_ptr() as *const c_void, inp.len()) };
                if v != inp.len() || v == 0 {
                    None
                } else {
                    Some(x)
                }
            }

            pub fn modq_encode(x: &[u16]) -> Option<Vec<u8>> {
                let mut out = vec![0u8; PK_LEN - 1];
                let v = unsafe { $modq_enc(out.as_mut_ptr() as *mut c_void, out.len(), x.as_ptr(), LOGN) };
                if v == 0 {
                    None
                } else {
                    out.truncate(v);
                    Some(out)
                }
            }

            pub fn trim_i8_decode(inp: &[u8], bits: u32) -> Option<(Vec<i8>, usize)> {
                let mut x = vec![0i8; N];
                let v = unsafe { $trim_dec(x.as_mut_ptr(), LOGN, bits, inp.as_ptr() as *const c_void, inp.len()) };
                if v == 0 {
                    None
                } else {
                    Some((x, v))
                }
            }

            pub fn trim_i8_encode(x: &[i8], bits: u32) -> Option<Vec<u8>> {
                let mut out = vec![0u8; N * 8 / 8 + 8];
                let v = unsafe { $trim_enc(out.as_mut_ptr() as *mut c_void, out.len(), x.as_ptr(), LOGN, bits) };
                if v == 0 {
                    None
                } else {
                    out.truncate(v);
                    Some(out)
                }
            }

            pub fn hash_to_point(data: &[u8]) -> Vec<u16> {
                let mut x = vec![0u16; N];
                unsafe {
                    let mut sc = ShakeCtx { ctx: std::ptr::null_mut() };
                    shake256_inc_init(&mut sc);
                    shake256_inc_absorb(&mut sc, data.as_ptr(), data.len());
                    shake256_inc_finalize(&mut sc);
                    $htp(&mut sc, x.as_mut_ptr(), LOGN);
                    shake256_inc_ctx_release(&mut sc);
                }
                x
            }

            /// Run PQClean's SamplerZ with a PRNG buffer preloaded with `bytes` (at most 512); returns
            /// (sample, bytes consumed). The caller must supply enough bytes for the call to finish
            /// (otherwise the PRNG would refill from an uninitialised ChaCha state: reported as None).
            pub fn sampler(mu: f64, sigma: f64, sigma_min: f64, bytes: &[u8]) -> Option<(i32, usize)> {
                let mut ctx = SamplerCtx {
                    p: Prng { buf: [0u8; 512], ptr: 0, state: [0u8; 256], typ: 0 },
                    sigma_min: sigma_min.to_bits(),
                };
                let k = bytes.len().min(512);
                // mark the unused tail so that running off the supplied bytes is detectable
                ctx.p.buf[..k].copy_from_slice(&bytes[..k]);
                let isigma = 1.0 / sigma;
                let z = unsafe { $sampler(&mut ctx as *mut SamplerCtx as *mut c_void, mu.to_bits(), isigma.to_bits()) };
                if ctx.p.ptr > k {
                    None
                } else {
                    Some((z, ctx.p.ptr))
                }
            }

            pub fn gaussian0(bytes9: &[u8; 9]) -> i32 {
                let mut p = Prng { buf: [0u8; 512], ptr: 0, state: [0u8; 256], typ: 0 };
                p.buf[..9].copy_from_slice(bytes9);
                unsafe { $gauss0(&mut p) }
            }
        }
    };
}

pq_variant!(
    f512, 9, 512, 1281, 897, 666,
    PQCLEAN_FALCON512_CLEAN_crypto_sign_keypair,
    PQCLEAN_FALCON512_CLEAN_crypto_sign_signature,
    PQCLEAN_FALCON512_CLEAN_crypto_sign_verify,
    PQCLEAN_FALCON512_CLEAN_comp_encode,
    PQCLEAN_FALCON512_CLEAN_comp_decode,
    PQCLEAN_FALCON512_CLEAN_modq_encode,
    PQCLEAN_FALCON512_CLEAN_modq_decode,
    PQCLEAN_FALCON512_CLEAN_trim_i8_encode,
    PQCLEAN_FALCON512_CLEAN_trim_i8_decode,
    PQCLEAN_FALCON512_CLEAN_hash_to_point_vartime,
    PQCLEAN_FALCON512_CLEAN_sampler,
    PQCLEAN_FALCON512_CLEAN_gaussian0_sampler
);

pq_variant!(
    f1024, 10, 1024, 2305, 1793, 1280,
    PQCLEAN_FALCON1024_CLEAN_crypto_sign_keypair,
    PQCLEAN_FALCON1024_CLEAN_crypto_sign_signature,
    PQCLEAN_FALCON1024_CLEAN_crypto_sign_verify,
    PQCLEAN_FALCON1024_CLEAN_comp_encode,
    PQCLEAN_FALCON1024_CLEAN_comp_decode,
    PQCLEAN_FALCON1024_CLEAN_modq_encode,
    PQCLEAN_FALCON1024_CLEAN_modq_decode,
    PQCLEAN_FALCON1024_CLEAN_trim_i8_encode,
    PQCLEAN_FALCON1024_CLEAN_trim_i8_decode,
    PQCLEAN_FALCON1024_CLEAN_hash_to_point_vartime,
    PQCLEAN_FALCON1024_CLEAN_sampler,
    PQCLEAN_FALCON1024_CLEAN_gaussian0_sampler
);

pub fn shake256_c(msg: &[u8], outlen: usize) -> Vec<u8> {
    let mut out = vec![0u8; outlen];
    unsafe { shake256(out.as_mut_ptr(), outlen, msg.as_ptr(), msg.len()) };
    out
}

pub fn randombytes_calls() -> u64 {
    unsafe { vf_randombytes_calls() }
}

/// Reframing between the two signature framings (property C16):
/// ours: 0x5n || salt || body zero-padded to the fixed length; PQClean: 0x3n || salt || body (variable)
pub fn rust_sig_to_pq(sig: &[u8]) -> Vec<u8> {
    let mut s = sig.to_vec();
    s[0] = (s[0] & 0x0f) | 0x30;
    while s.len() > 41 && *s.last().unwrap() == 0 {
        s.pop();
    }
    s
}

pub fn pq_sig_to_rust(sig: &[u8], total_len: usize) -> Option<Vec<u8>> {
    if sig.len() > total_len || sig.len() < 41 {
        return None;
    }
    let mut s = sig.to_vec();
    s[0] = (s[0] & 0x0f) | 0x50;
    s.resize(total_len, 0);
    Some(s)
}

//! History differential (E4 with a differential oracle): the result of an operation must not depend on
//! which other operations ran before it in the same process / on the same thread. Each history runs in
//! a fresh child process (initial state), executes its operations in order on the main thread and prints
//! one digest line per operation; the parent demands that every operation has the same digest in every
//! history it appears in. Catches state carried between calls (caches, statics shared by the two
//! variants, thread-locals sized by first use).

use crate::api::{Variant, V1024, V512};
use crate::ctx::{hex, machinery_error, Ctx, Part};
use crate::sched::{child, sequences};
use crate::util::{seed_bytes, with_stream};
use rayon::prelude::*;
use serde_json::json;
use std::collections::BTreeMap;

fn fnv(data: &[u8]) -> u64 {
    let mut h: u64 = 0xcbf29ce484222325;
    for b in data {
        h ^= *b as u64;
        h = h.wrapping_mul(0x100000001b3);
    }
    h
}

fn leaves_digest<V: Variant>(sk: &V::Sk) -> (u64, f64, f64) {
    let leaves = crate::checks::diag::leaves_of(&V::sk_tree(sk));
    let mut bytes = vec![];
    for l in &leaves {
        bytes.extend_from_slice(&l.to_bits().to_le_bytes());
    }
    (fnv(&bytes), leaves.iter().cloned().fold(f64::INFINITY, f64::min), leaves.iter().cloned().fold(f64::NEG_INFINITY, f64::max))
}

/// operations: K<n> keygen; S<n> keygen + sign (fixed stream) + verify; D<n> keygen + to_bytes + from_bytes + sign with
/// the decoded key + verify under the original public key; P<n> public/signature decode + verify of a stored signature
fn exec_op<V: Variant>(kind: char, seed: u64) -> String {
    let r = crate::ctx::catch(|| {
        let (sk, pk) = V::keygen(seed_bytes(seed));
        let skb = V::sk_to_bytes(&sk);
        let pkb = V::pk_to_bytes(&pk);
        match kind {
            'K' => {
                let (ld, lo, hi) = leaves_digest::<V>(&sk);
                format!("sk={:016x} pk={:016x} leaves={:016x} min={:.12} max={:.12}", fnv(&skb), fnv(&pkb), ld, lo, hi)
            }
            'S' => {
                let mut out = String::new();
                for (i, msg) in [&b"history message"[..], &b""[..], &[0x5Au8; 300][..]].iter().enumerate() {
                    let sig = with_stream(70 + i as u64, || V::sign(msg, &sk));
                    let ok = V::verify(msg, &sig, &pk);
                    out += &format!("sig{}={:016x} verifies={} ", i, fnv(&V::sig_to_bytes(&sig)), ok);
                }
                out
            }
            'D' => {
                let sk2 = V::sk_from_bytes(&skb).map_err(|e| format!("from_bytes failed: {}", e));
                match sk2 {
                    Ok(sk2) => {
                        let (ld, lo, hi) = leaves_digest::<V>(&sk2);
                        let sig = with_stream(75, || V::sign(b"decoded key", &sk2));
                        let ok = V::verify(b"decoded key", &sig, &pk);
                        let pk2 = V::pk_from_bytes(&pkb).map(|p| V::pk_to_bytes(&p) == pkb).unwrap_or(false);
                        format!("equal={} reenc={} leaves={:016x} min={:.12} max={:.12} sig={:016x} verifies={} pk_roundtrip={}", sk2 == sk, V::sk_to_bytes(&sk2) == skb, ld, lo, hi, fnv(&V::sig_to_bytes(&sig)), ok, pk2)
                    }
                    Err(e) => e,
                }
            }
            'V' => {
                // verification only: a valid pair, the same signature under another message, a corrupted body
                let sig = with_stream(76, || V::sign(b"verify history", &sk));
                let sb = V::sig_to_bytes(&sig);
                let pk2 = V::pk_from_bytes(&pkb).map_err(|e| e.to_string());
                let sg2 = V::sig_from_bytes(&sb).map_err(|e| e.to_string());
                match (pk2, sg2) {
                    (Ok(pk2), Ok(sg2)) => {
                        let mut bad = sb.clone();
                        bad[60] ^= 0x04;
                        let badv = V::sig_from_bytes(&bad).map(|b| V::verify(b"verify history", &b, &pk2)).unwrap_or(false);
                        format!("valid={} other_message={} corrupted={}", V::verify(b"verify history", &sg2, &pk2), V::verify(b"another message", &sg2, &pk2), badv)
                    }
                    (a, b) => format!("decode failed: {:?} {:?}", a.err(), b.err()),
                }
            }
            _ => "unknown".to_string(),
        }
    });
    match r {
        Ok(s) => s,
        Err(e) => format!("PANIC {}", e),
    }
}

pub fn child_history(args: &[String]) {
    // args[0]: comma separated ops like K512,S1024,D512 ; seeds fixed per variant
    // an upper-case operation uses the first key of its variant, a lower-case one a second key (a cache keyed by
    // the degree alone, by an address or by part of the key shows when two keys of one variant meet in one process)
    for op in args[0].split(',') {
        let c = op.chars().next().unwrap_or('?');
        let kind = c.to_ascii_uppercase();
        let second = c.is_ascii_lowercase();
        let n: usize = op[1..].parse().unwrap_or(0);
        let line = if n == 512 { exec_op::<V512>(kind, if second { 2003 } else { 2001 }) } else { exec_op::<V1024>(kind, if second { 2004 } else { 2002 }) };
        println!("{} {}", op, line);
    }
}

/// Run every sequence of `depth` operations over `alphabet` (plus all shorter ones) in its own process
/// and compare per-operation digests across histories.
pub fn differential(ctx: &mut Ctx, name: &str, alphabet: &[&str], depth: usize, also_require: &dyn Fn(&str, &str) -> Option<String>) {
    let mut hists: Vec<Vec<&str>> = vec![];
    for d in 1..=depth {
        for s in sequences(alphabet.len(), d) {
            hists.push(s.iter().map(|&i| alphabet[i]).collect());
        }
    }
    let results: Vec<(String, Result<String, String>)> = hists.par_iter().map(|h| (h.join(","), child(&["history", &h.join(",")]))).collect();
    let mut part = Part::new(
        name,
        &format!("every sequence of <= {} operations over {:?} (K = keygen, S = keygen+sign x3 (fixed streams)+verify, D = keygen+to_bytes+from_bytes+sign with the decoded key+verify, V = verify of a valid, a mismatched and a corrupted pair; upper case = first key of the variant, lower case = a second key; fixed seeds) run in its own fresh process on the main thread; each operation's digest (key bytes, tree leaves bit for bit, signature bytes, verdicts) must be identical in every history it appears in", depth, alphabet),
    );
    let mut by_op: BTreeMap<String, (String, String)> = BTreeMap::new(); // op -> (digest, first history)
    for (h, r) in results {
        part.states += 1;
        let out = match r {
            Ok(o) => o,
            Err(e) => machinery_error(&format!("history child failed: {}", e)),
        };
        for line in out.lines() {
            let Some((op, digest)) = line.split_once(' ') else { continue };
            part.transitions += 1;
            part.validated += 1;
            if digest.starts_with("PANIC") {
                ctx.violation(format!("history:panic:{}", op), format!("operation {} panicked in history [{}]: {}", op, h, digest), json!({"kind":"history","history":h}));
                continue;
            }
            if let Some(why) = also_require(op, digest) {
                ctx.violation(format!("history:bad-result:{}", op), format!("operation {} in history [{}]: {} ({})", op, h, why, digest), json!({"kind":"history","history":h}));
            }
            match by_op.get(op) {
                None => {
                    by_op.insert(op.to_string(), (digest.to_string(), h.clone()));
                }
                Some((d0, h0)) => {
                    if d0 != digest {
                        ctx.violation(
                            format!("history:differs:{}", op),
                            format!("operation {} gives a different result in history [{}] than in history [{}]: {} vs {}", op, h, h0, digest, d0),
                            json!({"kind":"history","history":h,"reference_history":h0}),
                        );
                    }
                }
            }
        }
    }
    for (op, (d, _)) in &by_op {
        part.outcome(format!("{}: {}", op, &d[..d.len().min(60)]));
    }
    part.exhaustive = true;
    ctx.add_part(part);
    let _ = hex(&[]);
}

pub fn replay(case: &serde_json::Value) -> Result<Option<String>, String> {
    let h = case.get("history").and_then(|x| x.as_str()).ok_or("history")?;
    let h0 = case.get("reference_history").and_then(|x| x.as_str());
    let a = child(&["history", h])?;
    if a.contains("PANIC") {
        return Ok(Some(format!("history [{}] panics: {}", h, a.lines().find(|l| l.contains("PANIC")).unwrap_or(""))));
    }
    if let Some(h0) = h0 {
        let b = child(&["history", h0])?;
        let map = |s: &str| -> BTreeMap<String, String> { s.lines().filter_map(|l| l.split_once(' ').map(|(a, b)| (a.to_string(), b.to_string()))).collect() };
        let (ma, mb) = (map(&a), map(&b));
        for (op, d) in &ma {
            if let Some(d0) = mb.get(op) {
                if d0 != d {
                    return Ok(Some(format!("operation {} differs between histories [{}] and [{}]", op, h, h0)));
                }
            }
        }
    }
    Ok(None)
}

//! The two public variants behind one trait so checks can be written once.

use falcon_rust::verif_hooks as fh;
pub use fh::TreeNode;

pub trait Variant: Send + Sync + 'static {
    const N: usize;
    type Sk: Clone + Send + Sync + PartialEq + std::fmt::Debug;
    type Pk: Clone + Send + Sync + PartialEq + std::fmt::Debug;
    type Sig: Clone + Send + Sync + PartialEq + std::fmt::Debug;
    fn keygen(seed: [u8; 32]) -> (Self::Sk, Self::Pk);
    fn generate() -> Self::Sk;
    fn pk_from_sk(sk: &Self::Sk) -> Self::Pk;
    fn sign(m: &[u8], sk: &Self::Sk) -> Self::Sig;
    fn verify(m: &[u8], sig: &Self::Sig, pk: &Self::Pk) -> bool;
    fn sk_to_bytes(sk: &Self::Sk) -> Vec<u8>;
    fn pk_to_bytes(pk: &Self::Pk) -> Vec<u8>;
    fn sig_to_bytes(sig: &Self::Sig) -> Vec<u8>;
    fn sk_from_bytes(b: &[u8]) -> Result<Self::Sk, String>;
    fn pk_from_bytes(b: &[u8]) -> Result<Self::Pk, String>;
    fn sig_from_bytes(b: &[u8]) -> Result<Self::Sig, String>;
    fn sk_basis(sk: &Self::Sk) -> [Vec<i16>; 4];
    fn sk_tree(sk: &Self::Sk) -> Vec<TreeNode>;
    fn sk_from_basis(b0: [Vec<i16>; 4]) -> Self::Sk;
    fn gen_basis(seed: [u8; 32]) -> [Vec<i16>; 4];
    fn pk_h(pk: &Self::Pk) -> Vec<u32>;
    fn name() -> &'static str;
}

macro_rules! variant {
    ($t:ident, $m:ident, $n:expr, $name:expr) => {
        pub struct $t;
        impl Variant for $t {
            const N: usize = $n;
            type Sk = falcon_rust::$m::SecretKey;
            type Pk = falcon_rust::$m::PublicKey;
            type Sig = falcon_rust::$m::Signature;
            fn keygen(seed: [u8; 32]) -> (Self::Sk, Self::Pk) {
                falcon_rust::$m::keygen(seed)
            }
            fn generate() -> Self::Sk {
                <Self::Sk>::generate()
            }
            fn pk_from_sk(sk: &Self::Sk) -> Self::Pk {
                <Self::Pk>::from_secret_key(sk)
            }
            fn sign(m: &[u8], sk: &Self::Sk) -> Self::Sig {
                falcon_rust::$m::sign(m, sk)
            }
            fn verify(m: &[u8], sig: &Self::Sig, pk: &Self::Pk) -> bool {
                falcon_rust::$m::verify(m, sig, pk)
            }
            fn sk_to_bytes(sk: &Self::Sk) -> Vec<u8> {
                sk.to_bytes()
            }
            fn pk_to_bytes(pk: &Self::Pk) -> Vec<u8> {
                pk.to_bytes()
            }
            fn sig_to_bytes(sig: &Self::Sig) -> Vec<u8> {
                sig.to_bytes()
            }
            fn sk_from_bytes(b: &[u8]) -> Result<Self::Sk, String> {
                <Self::Sk>::from_bytes(b).map_err(|e| format!("{:?}", e))
            }
            fn pk_from_bytes(b: &[u8]) -> Result<Self::Pk, String> {
                <Self::Pk>::from_bytes(b).map_err(|e| format!("{:?}", e))
            }
            fn sig_from_bytes(b: &[u8]) -> Result<Self::Sig, String> {
                <Self::Sig>::from_bytes(b).map_err(|e| format!("{:?}", e))
            }
            fn sk_basis(sk: &Self::Sk) -> [Vec<i16>; 4] {
                fh::sk_basis(sk)
            }
            fn sk_tree(sk: &Self::Sk) -> Vec<TreeNode> {
                fh::sk_tree(sk)
            }
            fn sk_from_basis(b0: [Vec<i16>; 4]) -> Self::Sk {
                fh::sk_from_basis::<$n>(b0)
            }
            fn gen_basis(seed: [u8; 32]) -> [Vec<i16>; 4] {
                fh::gen_basis::<$n>(seed)
            }
            fn pk_h(pk: &Self::Pk) -> Vec<u32> {
                fh::pk_h(pk)
            }
            fn name() -> &'static str {
                $name
            }
        }
    };
}

variant!(V512, falcon512, 512, "falcon512");
variant!(V1024, falcon1024, 1024, "falcon1024");

/// Deterministic key cache on disk is deliberately NOT used: every check regenerates its keys
/// from /repo's current code.
pub fn key<V: Variant>(i: u64) -> (V::Sk, V::Pk) {
    V::keygen(crate::util::seed_bytes(i))
}

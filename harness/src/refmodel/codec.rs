//! Algorithms 17 (Compress) and 18 (Decompress) at bit level. Values are i64, the unary run
//! is unbounded (the specification puts no cap on it).

fn get_bit(x: &[u8], i: usize) -> bool {
    (x[i / 8] >> (7 - (i % 8))) & 1 == 1
}

/// number of bits the encoding of v occupies
pub fn bits_of(v: &[i64]) -> usize {
    v.iter().map(|&s| 9 + ((s.unsigned_abs() >> 7) as usize)).sum()
}

/// Algorithm 17. `slen` is the byte budget. None = the specification's "bottom".
pub fn compress(v: &[i64], slen: usize) -> Option<Vec<u8>> {
    let mut bits: Vec<bool> = Vec::new();
    for &s in v {
        bits.push(s < 0);
        let a = s.unsigned_abs();
        for i in (0..7).rev() {
            bits.push((a >> i) & 1 == 1);
        }
        for _ in 0..(a >> 7) {
            bits.push(false);
        }
        bits.push(true);
        if bits.len() > 8 * slen {
            return None;
        }
    }
    if bits.len() > 8 * slen {
        return None;
    }
    let mut out = vec![0u8; slen];
    for (i, b) in bits.iter().enumerate() {
        if *b {
            out[i / 8] |= 1 << (7 - (i % 8));
        }
    }
    Some(out)
}

/// Algorithm 18. None = "bottom": ran out of bits, negative zero, or non-zero padding.
pub fn decompress(x: &[u8], n: usize) -> Option<Vec<i64>> {
    let total = 8 * x.len();
    let mut pos = 0usize;
    let mut out = Vec::with_capacity(n);
    for _ in 0..n {
        if pos + 8 > total {
            return None;
        }
        let sign = get_bit(x, pos);
        pos += 1;
        let mut low = 0i64;
        for _ in 0..7 {
            low = (low << 1) | (get_bit(x, pos) as i64);
            pos += 1;
        }
        let mut k = 0i64;
        loop {
            if pos >= total {
                return None;
            }
            let b = get_bit(x, pos);
            pos += 1;
            if b {
                break;
            }
            k += 1;
        }
        let mag = low + 128 * k;
        if mag == 0 && sign {
            return None;
        }
        out.push(if sign { -mag } else { mag });
    }
    while pos < total {
        if get_bit(x, pos) {
            return None;
        }
        pos += 1;
    }
    Some(out)
}

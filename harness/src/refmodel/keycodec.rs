//! Key encodings of specification sections 3.11.4 (public key) and 3.11.5 (secret key).
use super::Q;

pub fn logn(n: usize) -> u8 {
    n.trailing_zeros() as u8
}

pub fn pk_len(n: usize) -> usize {
    1 + 14 * n / 8
}

pub fn fg_bits(n: usize) -> usize {
    // specification Table 3.? : 6 bits for n = 512, 5 bits for n = 1024
    match n {
        512 => 6,
        1024 => 5,
        _ => panic!("no such variant"),
    }
}

pub fn sk_len(n: usize) -> usize {
    1 + (2 * fg_bits(n) + 8) * n / 8
}

struct BitWriter {
    out: Vec<u8>,
    nbits: usize,
}
impl BitWriter {
    fn new() -> Self {
        BitWriter { out: vec![], nbits: 0 }
    }
    fn push(&mut self, value: u64, width: usize) {
        for i in (0..width).rev() {
            if self.nbits % 8 == 0 {
                self.out.push(0);
            }
            if (value >> i) & 1 == 1 {
                let l = self.out.len();
                self.out[l - 1] |= 1 << (7 - (self.nbits % 8));
            }
            self.nbits += 1;
        }
    }
}

fn read_bits(x: &[u8], pos: usize, width: usize) -> u64 {
    let mut v = 0u64;
    for i in 0..width {
        let p = pos + i;
        v = (v << 1) | (((x[p / 8] >> (7 - (p % 8))) & 1) as u64);
    }
    v
}

/// header 0000 nnnn, then n big-endian 14-bit fields
pub fn pk_encode(h: &[i64]) -> Vec<u8> {
    let n = h.len();
    let mut w = BitWriter::new();
    w.push(logn(n) as u64, 8);
    for &c in h {
        assert!((0..Q).contains(&c));
        w.push(c as u64, 14);
    }
    w.out
}

/// None = reject (wrong length, wrong header, field >= q)
pub fn pk_decode(b: &[u8], n: usize) -> Option<Vec<i64>> {
    if b.len() != pk_len(n) {
        return None;
    }
    if b[0] != logn(n) {
        return None;
    }
    let mut h = Vec::with_capacity(n);
    for i in 0..n {
        let v = read_bits(b, 8 + 14 * i, 14) as i64;
        if v >= Q {
            return None;
        }
        h.push(v);
    }
    Some(h)
}

/// header 0101 nnnn, then f, g (fg_bits each) and F (8 bits), two's complement.
/// None if a coefficient is outside the symmetric range of its field.
pub fn sk_encode(f: &[i64], g: &[i64], cf: &[i64]) -> Option<Vec<u8>> {
    let n = f.len();
    let mut w = BitWriter::new();
    w.push(0x50 | logn(n) as u64, 8);
    for (p, width) in [(f, fg_bits(n)), (g, fg_bits(n)), (cf, 8)] {
        let lim = (1i64 << (width - 1)) - 1;
        for &c in p {
            if c < -lim || c > lim {
                return None;
            }
            w.push((c as u64) & ((1u64 << width) - 1), width);
        }
    }
    Some(w.out)
}

/// None = reject (wrong length, wrong header, reserved value -2^(w-1) in a field)
pub fn sk_decode(b: &[u8], n: usize) -> Option<(Vec<i64>, Vec<i64>, Vec<i64>)> {
    if b.len() != sk_len(n) {
        return None;
    }
    if b[0] != (0x50 | logn(n)) {
        return None;
    }
    let mut pos = 8;
    let mut polys = vec![];
    for width in [fg_bits(n), fg_bits(n), 8] {
        let mut p = Vec::with_capacity(n);
        for _ in 0..n {
            let raw = read_bits(b, pos, width) as i64;
            pos += width;
            let v = if raw >= (1 << (width - 1)) { raw - (1 << width) } else { raw };
            if v == -(1 << (width - 1)) {
                return None;
            }
            p.push(v);
        }
        polys.push(p);
    }
    let cf = polys.pop().unwrap();
    let g = polys.pop().unwrap();
    let f = polys.pop().unwrap();
    Some((f, g, cf))
}

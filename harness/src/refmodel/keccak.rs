//! Keccak-f[1600] and SHAKE-256 (FIPS 202), written from the standard.

const RC: [u64; 24] = [
    0x0000000000000001, 0x0000000000008082, 0x800000000000808A, 0x8000000080008000,
    0x000000000000808B, 0x0000000080000001, 0x8000000080008081, 0x8000000000008009,
    0x000000000000008A, 0x0000000000000088, 0x0000000080008009, 0x000000008000000A,
    0x000000008000808B, 0x800000000000008B, 0x8000000000008089, 0x8000000000008003,
    0x8000000000008002, 0x8000000000000080, 0x000000000000800A, 0x800000008000000A,
    0x8000000080008081, 0x8000000000008080, 0x0000000080000001, 0x8000000080008008,
];

const ROT: [[u32; 5]; 5] = [
    // ROT[x][y]
    [0, 36, 3, 41, 18],
    [1, 44, 10, 45, 2],
    [62, 6, 43, 15, 61],
    [28, 55, 25, 21, 56],
    [27, 20, 39, 8, 14],
];

pub fn keccak_f(a: &mut [u64; 25]) {
    // lane (x, y) is a[x + 5 y]
    for rc in RC.iter() {
        // theta
        let mut c = [0u64; 5];
        for x in 0..5 {
            c[x] = a[x] ^ a[x + 5] ^ a[x + 10] ^ a[x + 15] ^ a[x + 20];
        }
        for x in 0..5 {
            let d = c[(x + 4) % 5] ^ c[(x + 1) % 5].rotate_left(1);
            for y in 0..5 {
                a[x + 5 * y] ^= d;
            }
        }
        // rho and pi
        let mut b = [0u64; 25];
        for x in 0..5 {
            for y in 0..5 {
                let nx = y;
                let ny = (2 * x + 3 * y) % 5;
                b[nx + 5 * ny] = a[x + 5 * y].rotate_left(ROT[x][y]);
            }
        }
        // chi
        for y in 0..5 {
            for x in 0..5 {
                a[x + 5 * y] = b[x + 5 * y] ^ ((!b[(x + 1) % 5 + 5 * y]) & b[(x + 2) % 5 + 5 * y]);
            }
        }
        // iota
        a[0] ^= rc;
    }
}

pub struct Shake256 {
    st: [u64; 25],
    buf: [u8; 136],
    pos: usize,
}

const RATE: usize = 136;

impl Shake256 {
    /// absorb `msg`, pad, and return a reader positioned at the first output byte
    pub fn xof(msg: &[u8]) -> Shake256 {
        let mut st = [0u64; 25];
        let mut block = [0u8; RATE];
        let mut chunks = msg.chunks_exact(RATE);
        for ch in &mut chunks {
            Self::xor_block(&mut st, ch);
            keccak_f(&mut st);
        }
        let rem = chunks.remainder();
        block[..rem.len()].copy_from_slice(rem);
        block[rem.len()] ^= 0x1F;
        block[RATE - 1] ^= 0x80;
        Self::xor_block(&mut st, &block);
        keccak_f(&mut st);
        let mut s = Shake256 {
            st,
            buf: [0u8; RATE],
            pos: 0,
        };
        s.extract();
        s
    }
    fn xor_block(st: &mut [u64; 25], block: &[u8]) {
        for i in 0..RATE / 8 {
            let mut w = [0u8; 8];
            w.copy_from_slice(&block[8 * i..8 * i + 8]);
            st[i] ^= u64::from_le_bytes(w);
        }
    }
    fn extract(&mut self) {
        for i in 0..RATE / 8 {
            self.buf[8 * i..8 * i + 8].copy_from_slice(&self.st[i].to_le_bytes());
        }
        self.pos = 0;
    }
    pub fn next_byte(&mut self) -> u8 {
        if self.pos == RATE {
            keccak_f(&mut self.st);
            self.extract();
        }
        let b = self.buf[self.pos];
        self.pos += 1;
        b
    }
    pub fn read(&mut self, out: &mut [u8]) {
        for o in out.iter_mut() {
            *o = self.next_byte();
        }
    }
}

pub fn shake256(msg: &[u8], outlen: usize) -> Vec<u8> {
    let mut x = Shake256::xof(msg);
    let mut out = vec![0u8; outlen];
    x.read(&mut out);
    out
}

/// Statistics about how the rejection threshold of HashToPoint was exercised.
#[derive(Default, Clone, Debug)]
pub struct HtpStats {
    pub chunks: u64,
    pub rejected: u64,
    pub at_61444: u64,
    pub at_61445: u64,
    pub at_65535: u64,
    pub at_12289_multiple: u64,
    pub rejected_before_last: u64,
}

/// Algorithm 3 (HashToPoint): big-endian 16-bit chunks of SHAKE-256(msg), chunks >= 5q = 61445
/// discarded, the rest reduced mod q, until n coefficients.
pub fn hash_to_point(msg: &[u8], n: usize, stats: Option<&mut HtpStats>) -> Vec<i64> {
    hash_to_point_on_stream(&[], msg, n, stats)
}

/// Algorithm 3 on the byte stream `prefix ++ SHAKE-256(msg)`: what the implementation must compute when its XOF
/// reader is made to deliver `prefix` first (verification hook `install_xof_prefix`)
pub fn hash_to_point_on_stream(prefix: &[u8], msg: &[u8], n: usize, stats: Option<&mut HtpStats>) -> Vec<i64> {
    let mut x = Shake256::xof(msg);
    let mut out = Vec::with_capacity(n);
    let mut st = HtpStats::default();
    let mut last_rejected = false;
    let mut pos = 0usize;
    let mut next = |x: &mut Shake256| -> u8 {
        if pos < prefix.len() {
            pos += 1;
            prefix[pos - 1]
        } else {
            x.next_byte()
        }
    };
    while out.len() < n {
        let hi = next(&mut x) as i64;
        let lo = next(&mut x) as i64;
        let t = (hi << 8) | lo;
        st.chunks += 1;
        match t {
            61444 => st.at_61444 += 1,
            61445 => st.at_61445 += 1,
            65535 => st.at_65535 += 1,
            _ => {}
        }
        if t < 61445 {
            if t % 12289 == 0 {
                st.at_12289_multiple += 1;
            }
            out.push(t % 12289);
            if out.len() == n && last_rejected {
                st.rejected_before_last += 1;
            }
            last_rejected = false;
        } else {
            st.rejected += 1;
            last_rejected = true;
        }
    }
    if let Some(s) = stats {
        s.chunks += st.chunks;
        s.rejected += st.rejected;
        s.at_61444 += st.at_61444;
        s.at_61445 += st.at_61445;
        s.at_65535 += st.at_65535;
        s.at_12289_multiple += st.at_12289_multiple;
        s.rejected_before_last += st.rejected_before_last;
    }
    out
}

//! Arithmetic modulo q = 12289 with i64::rem_euclid.
use super::Q;

pub fn add(a: i64, b: i64) -> i64 {
    (a + b).rem_euclid(Q)
}
pub fn sub(a: i64, b: i64) -> i64 {
    (a - b).rem_euclid(Q)
}
pub fn mul(a: i64, b: i64) -> i64 {
    (a * b).rem_euclid(Q)
}
pub fn neg(a: i64) -> i64 {
    (-a).rem_euclid(Q)
}
pub fn pow(a: i64, mut e: u64) -> i64 {
    let mut base = a.rem_euclid(Q);
    let mut acc = 1i64;
    while e > 0 {
        if e & 1 == 1 {
            acc = acc * base % Q;
        }
        base = base * base % Q;
        e >>= 1;
    }
    acc
}
/// inverse table by exhaustive search: inv[a] * a = 1 (mod q), inv[0] = 0
pub fn inverse_table() -> Vec<i64> {
    static TABLE: std::sync::OnceLock<Vec<i64>> = std::sync::OnceLock::new();
    TABLE.get_or_init(build_inverse_table).clone()
}

fn build_inverse_table() -> Vec<i64> {
    let mut inv = vec![0i64; Q as usize];
    for a in 1..Q {
        if inv[a as usize] != 0 {
            continue;
        }
        for b in 1..Q {
            if a * b % Q == 1 {
                inv[a as usize] = b;
                inv[b as usize] = a;
                break;
            }
        }
    }
    inv
}
/// centred representative in [-6144, 6144]
pub fn centred(a: i64) -> i64 {
    let r = a.rem_euclid(Q);
    if r > Q / 2 {
        r - Q
    } else {
        r
    }
}

//! Boring reference models, written from the specification text (Falcon v1.2, falcon.pdf)
//! with i64/i128/f64 and naive algorithms. No code from the crate under test is used here.

pub mod codec;
pub mod gso;
pub mod keccak;
pub mod keycodec;
pub mod poly;
pub mod samplerz;
pub mod verify;
pub mod zq;

pub const Q: i64 = 12289;

/// floor(beta^2) for the two parameter sets (specification, Table 3.3)
pub fn sig_bound(n: usize) -> i64 {
    match n {
        512 => 34034726,
        1024 => 70265242,
        _ => panic!("no such variant"),
    }
}

/// total signature length in bytes (header + salt + compressed s2), specification Table 3.3
pub fn sig_len(n: usize) -> usize {
    match n {
        512 => 666,
        1024 => 1280,
        _ => panic!("no such variant"),
    }
}

pub fn sigma(n: usize) -> f64 {
    match n {
        512 => 165.7366171829776,
        1024 => 168.38857144654395,
        _ => panic!("no such variant"),
    }
}

pub fn sigma_min(n: usize) -> f64 {
    match n {
        512 => 1.2778336969128337,
        1024 => 1.298280334344292,
        _ => panic!("no such variant"),
    }
}

pub const SIGMA_MAX: f64 = 1.8205;

//! Schoolbook arithmetic in Z[X]/(X^n+1) and Z_q[X]/(X^n+1).
use super::Q;

/// negacyclic product over Z (i128 accumulators)
pub fn mul_z(a: &[i64], b: &[i64]) -> Vec<i128> {
    let n = a.len();
    assert_eq!(n, b.len());
    let mut c = vec![0i128; n];
    for i in 0..n {
        if a[i] == 0 {
            continue;
        }
        let ai = a[i] as i128;
        for j in 0..n {
            let p = ai * (b[j] as i128);
            let k = i + j;
            if k < n {
                c[k] += p;
            } else {
                c[k - n] -= p;
            }
        }
    }
    c
}

/// negacyclic product modulo q; inputs are arbitrary integers, output in [0, q)
pub fn mul_q(a: &[i64], b: &[i64]) -> Vec<i64> {
    let n = a.len();
    assert_eq!(n, b.len());
    let ar: Vec<i64> = a.iter().map(|x| x.rem_euclid(Q)).collect();
    let br: Vec<i64> = b.iter().map(|x| x.rem_euclid(Q)).collect();
    let mut c = vec![0i64; n];
    for i in 0..n {
        if ar[i] == 0 {
            continue;
        }
        for j in 0..n {
            let p = ar[i] * br[j];
            let k = i + j;
            if k < n {
                c[k] += p;
            } else {
                c[k - n] -= p;
            }
        }
    }
    c.iter().map(|x| x.rem_euclid(Q)).collect()
}

/// bit reversal of `i` within log2(n) bits
pub fn brv(i: usize, n: usize) -> usize {
    let bits = n.trailing_zeros();
    if bits == 0 {
        return 0;
    }
    i.reverse_bits() >> (usize::BITS - bits)
}

/// multiply by X^k in Z[X]/(X^n+1)
pub fn shift_z(a: &[i64], k: usize) -> Vec<i64> {
    let n = a.len();
    let mut c = vec![0i64; n];
    for i in 0..n {
        let j = (i + k) % (2 * n);
        if j < n {
            c[j] += a[i];
        } else {
            c[j - n] -= a[i];
        }
    }
    c
}

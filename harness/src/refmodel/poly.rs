//! Schoolbook arithmetic in Z[X]/(X^n+1) and Z_q[X]/(X^n+1).
use super::Q;

/// negacyclic product over Z (i128 accumulators)
pub fn mul_z(a: &[i64], b: &[i64]) -> Vec<i128> {
    let n = a.len();
    assert_eq!(n, b.len());
    let mut c = vec![0i128; n];
    for i in 0..n {
        if a[i] == 0 {
            continue;
        }
        let ai = a[i] as i128;
        for j in 0..n {
            let p = ai * (b[j] as i128);
            let k = i + j;
            if k < n {
                c[k] += p;
            } else {
                c[k - n] -= p;
            }
        }
    }
    c
}

/// negacyclic product modulo q; inputs are arbitrary integers, output in [0, q)
pub fn mul_q(a: &[i64], b: &[i64]) -> Vec<i64> {
    let n = a.len();
    assert_eq!(n, b.len());
    let ar: Vec<i64> = a.iter().map(|x| x.rem_euclid(Q)).collect();
    let br: Vec<i64> = b.iter().map(|x| x.rem_euclid(Q)).collect();
    let mut c = vec![0i64; n];
    for i in 0..n {
        if ar[i] == 0 {
            continue;
        }
        for j in 0..n {
            let p = ar[i] * br[j];
            let k = i + j;
            if k < n {
                c[k] += p;
            } else {
                c[k - n] -= p;
            }
        }
    }
    c.iter().map(|x| x.rem_euclid(Q)).collect()
}

/// bit reversal of `i` within log2(n) bits
pub fn brv(i: usize, n: usize) -> usize {
    let bits = n.trailing_zeros();
    if bits == 0 {
        return 0;
    }
    i.reverse_bits() >> (usize::BITS - bits)
}

/// multiply by X^k in Z[X]/(X^n+1)
pub fn shift_z(a: &[i64], k: usize) -> Vec<i64> {
    let n = a.len();
    let mut c = vec![0i64; n];
    for i in 0..n {
        let j = (i + k) % (2 * n);
        if j < n {
            c[j] += a[i];
        } else {
            c[j - n] -= a[i];
        }
    }
    c
}

/// smallest generator of Z_q^*
pub fn primitive_root() -> i64 {
    use super::zq;
    // q - 1 = 2^12 * 3
    for g in 2..Q {
        if zq::pow(g, (Q as u64 - 1) / 2) != 1 && zq::pow(g, (Q as u64 - 1) / 3) != 1 {
            return g;
        }
    }
    unreachable!()
}

/// the n roots of X^n + 1 modulo q (odd powers of a primitive 2n-th root), natural order
pub fn roots(n: usize) -> Vec<i64> {
    use super::zq;
    let g = primitive_root();
    let psi = zq::pow(g, (Q as u64 - 1) / (2 * n as u64));
    (0..n).map(|k| zq::pow(psi, (2 * k + 1) as u64)).collect()
}

/// evaluations of a at the roots (naive O(n^2) DFT)
pub fn eval_at_roots(a: &[i64], roots: &[i64]) -> Vec<i64> {
    roots
        .iter()
        .map(|&w| {
            let mut acc = 0i64;
            for &c in a.iter().rev() {
                acc = (acc * w + c.rem_euclid(Q)) % Q;
            }
            acc
        })
        .collect()
}

/// interpolation from evaluations at the roots of X^n+1 (naive O(n^2))
pub fn interpolate(vals: &[i64], roots: &[i64]) -> Vec<i64> {
    use super::zq;
    let n = vals.len();
    let inv = zq::inverse_table();
    let ninv = inv[(n as i64 % Q) as usize];
    // a_j = n^-1 sum_k vals[k] * w_k^-j
    let winv: Vec<i64> = roots.iter().map(|&w| inv[w as usize]).collect();
    let mut out = vec![0i64; n];
    let mut pw: Vec<i64> = vec![1; n];
    for j in 0..n {
        let mut acc = 0i64;
        for k in 0..n {
            acc = (acc + vals[k] * pw[k]) % Q;
        }
        out[j] = acc * ninv % Q;
        for k in 0..n {
            pw[k] = pw[k] * winv[k] % Q;
        }
    }
    out
}

/// inverse in Z_q[X]/(X^n+1), None if not a unit
pub fn inv_q(a: &[i64]) -> Option<Vec<i64>> {
    use super::zq;
    let n = a.len();
    let r = roots(n);
    let ev = eval_at_roots(a, &r);
    if ev.iter().any(|&x| x == 0) {
        return None;
    }
    let inv = zq::inverse_table();
    let iv: Vec<i64> = ev.iter().map(|&x| inv[x as usize]).collect();
    Some(interpolate(&iv, &r))
}

//! Algorithm 16 (Verify) with Algorithms 3 and 18.
use super::{codec, keccak, poly, sig_bound, zq};

#[derive(Debug, Clone, PartialEq)]
pub enum Verdict {
    Accept { norm: i128 },
    RejectEncoding,
    RejectNorm { norm: i128 },
}

impl Verdict {
    pub fn accepted(&self) -> bool {
        matches!(self, Verdict::Accept { .. })
    }
}

/// `salt` 40 bytes, `body` the compressed s2 field (sig_len - 41 bytes), `h` in [0, q).
pub fn verify(n: usize, msg: &[u8], salt: &[u8], body: &[u8], h: &[i64]) -> Verdict {
    let mut sm = salt.to_vec();
    sm.extend_from_slice(msg);
    let c = keccak::hash_to_point(&sm, n, None);
    let Some(s2) = codec::decompress(body, n) else {
        return Verdict::RejectEncoding;
    };
    let norm = norm_of(&c, &s2, h);
    if norm <= sig_bound(n) as i128 {
        Verdict::Accept { norm }
    } else {
        Verdict::RejectNorm { norm }
    }
}

/// squared norm of (s1, s2) with s1 = c - s2 h mod q centred
pub fn norm_of(c: &[i64], s2: &[i64], h: &[i64]) -> i128 {
    let s2h = poly::mul_q(s2, h);
    let mut norm: i128 = 0;
    for i in 0..c.len() {
        let s1 = zq::centred(c[i] - s2h[i]) as i128;
        norm += s1 * s1;
        norm += (s2[i] as i128) * (s2[i] as i128);
    }
    norm
}

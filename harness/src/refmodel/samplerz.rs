//! BaseSampler / ApproxExp / BerExp / SamplerZ (specification Algorithms 12-15).
//! Floating-point evaluation order of x follows the reference C code the specification's
//! test vectors (Table 3.2) were produced with.

use super::SIGMA_MAX;

/// Reverse cumulative distribution table, specification Table 3.1 (72-bit values).
pub const RCDT: [u128; 18] = [
    3024686241123004913666,
    1564742784480091954050,
    636254429462080897535,
    199560484645026482916,
    47667343854657281903,
    8595902006365044063,
    1163297957344668388,
    117656387352093658,
    8867391802663976,
    496969357462633,
    20680885154299,
    638331848991,
    14602316184,
    247426747,
    3104126,
    28824,
    198,
    1,
];

/// Polynomial coefficients of ApproxExp (specification Algorithm 13, from FACCT).
pub const C: [u64; 13] = [
    0x00000004741183A3,
    0x00000036548CFC06,
    0x0000024FDCBF140A,
    0x0000171D939DE045,
    0x0000D00CF58F6F84,
    0x000680681CF796E3,
    0x002D82D8305B0FEA,
    0x011111110E066FD0,
    0x0555555555070F00,
    0x155555555581FF00,
    0x400000000002B400,
    0x7FFFFFFFFFFF4800,
    0x8000000000000000,
];

pub const LN2: f64 = 0.69314718055994530941;

/// Algorithm 12 on an explicit 72-bit integer u
pub fn base_sampler_u(u: u128) -> i64 {
    RCDT.iter().filter(|&&t| u < t).count() as i64
}

/// the 9 random bytes are the big-endian representation of u
pub fn base_sampler(bytes: &[u8; 9]) -> i64 {
    let mut u: u128 = 0;
    for b in bytes {
        u = (u << 8) | (*b as u128);
    }
    base_sampler_u(u)
}

pub fn u_to_bytes(u: u128) -> [u8; 9] {
    let mut out = [0u8; 9];
    for i in 0..9 {
        out[8 - i] = ((u >> (8 * i)) & 0xff) as u8;
    }
    out
}

/// Algorithm 13: integer approximation of 2^63 * ccs * exp(-x), x in [0, ln 2], ccs in [0, 1]
pub fn approx_exp(x: f64, ccs: f64) -> u64 {
    let two63 = 9223372036854775808.0f64;
    let mut y: u64 = C[0];
    // x is non-negative by construction in the specification; a rounding-level negative x (possible
    // when (z-r)^2/(2 sigma'^2) and z0^2/(2 sigma_max^2) coincide mathematically) is treated as 0
    let z: u64 = if x > 0.0 { (x * two63).floor() as u64 } else { 0 };
    for c in C.iter().skip(1) {
        let zy = ((z as u128) * (y as u128)) >> 63;
        y = c.wrapping_sub(zy as u64);
    }
    let z: u64 = (two63 * ccs).floor() as u64;
    (((z as u128) * (y as u128)) >> 63) as u64
}

/// the 64-bit comparison word of Algorithm 14
pub fn ber_exp_threshold(x: f64, ccs: f64) -> u64 {
    // s = integer part of x / ln 2 (truncation: a rounding-level negative x gives s = 0)
    let s = if x > 0.0 { (x / LN2).floor() } else { 0.0 };
    let r = x - s * LN2;
    let s = if s > 63.0 { 63u32 } else { s as u32 };
    let z = (((approx_exp(r, ccs) as u128) << 1) - 1) >> s;
    z as u64
}

/// Algorithm 14 restricted to the 7 random bytes the interface under test supplies.
/// Some(accept) when one of the 7 bytes differs from the corresponding byte of the threshold
/// word; None when all 7 tie (the specification would read an eighth byte).
pub fn ber_exp7(x: f64, ccs: f64, bytes: &[u8; 7]) -> Option<bool> {
    let z = ber_exp_threshold(x, ccs);
    for (k, b) in bytes.iter().enumerate() {
        let i = 56 - 8 * k;
        let w = (*b as i32) - (((z >> i) & 0xff) as i32);
        if w != 0 {
            return Some(w < 0);
        }
    }
    None
}

/// x of Algorithm 15 for the candidate (z0, b)
pub fn sampler_x(r: f64, sigma: f64, z0: i64, b: i64) -> f64 {
    let isigma = 1.0 / sigma;
    let dss = 0.5 * isigma * isigma;
    let inv_2sigma_max_sq = 1.0 / (2.0 * SIGMA_MAX * SIGMA_MAX);
    let z = b + (2 * b - 1) * z0;
    let zr = (z as f64) - r;
    zr * zr * dss - ((z0 * z0) as f64) * inv_2sigma_max_sq
}

#[derive(Debug, Clone, PartialEq)]
pub enum Step {
    /// this iteration accepted and the sampler returns the value
    Return(i64),
    Reject,
    /// all seven comparison bytes tied (either answer is within the specification up to 2^-56)
    Tie { would_return: i64 },
}

/// One iteration of Algorithm 15 on 17 bytes: 9 (BaseSampler) + 1 (sign) + 7 (BerExp).
pub fn sampler_step(mu: f64, sigma: f64, sigma_min: f64, bytes: &[u8; 17]) -> Step {
    let s = mu.floor();
    let r = mu - s;
    let ccs = sigma_min * (1.0 / sigma);
    let mut b9 = [0u8; 9];
    b9.copy_from_slice(&bytes[0..9]);
    let z0 = base_sampler(&b9);
    let b = (bytes[9] & 1) as i64;
    let z = b + (2 * b - 1) * z0;
    let x = sampler_x(r, sigma, z0, b);
    let mut b7 = [0u8; 7];
    b7.copy_from_slice(&bytes[10..17]);
    match ber_exp7(x, ccs, &b7) {
        Some(true) => Step::Return(z + s as i64),
        Some(false) => Step::Reject,
        None => Step::Tie { would_return: z + s as i64 },
    }
}

//! Dense Gram-Schmidt orthogonalisation of the 2n integer rows of the secret basis, and
//! exact NTRU checks. f64 with classical (not modified) Gram-Schmidt on the Gram matrix via
//! an LDL^T recursion, O((2n)^3).

use super::poly;

/// The 2n x 2n coefficient matrix whose rows are X^{brv(i)} * (a, b) for i < n ("row block" of
/// (a,b)). A pair (a, b) of polynomials is embedded as the concatenation of coefficient vectors.
pub fn rotations(a: &[i64], b: &[i64], order_brv: bool) -> Vec<Vec<f64>> {
    let n = a.len();
    let mut rows = Vec::with_capacity(n);
    for i in 0..n {
        let k = if order_brv { poly::brv(i, n) } else { i };
        let ra = poly::shift_z(a, k);
        let rb = poly::shift_z(b, k);
        let mut row: Vec<f64> = ra.iter().map(|&x| x as f64).collect();
        row.extend(rb.iter().map(|&x| x as f64));
        rows.push(row);
    }
    rows
}

pub struct Gso {
    /// squared norms of the Gram-Schmidt vectors
    pub d: Vec<f64>,
    /// the Gram-Schmidt vectors themselves (rows)
    pub bstar: Vec<Vec<f64>>,
}

/// Classical Gram-Schmidt with re-orthogonalisation (two passes) for stability.
pub fn gram_schmidt(rows: &[Vec<f64>], keep_vectors: bool) -> Gso {
    let m = rows.len();
    let dim = rows[0].len();
    let mut bstar: Vec<Vec<f64>> = Vec::with_capacity(m);
    let mut d: Vec<f64> = Vec::with_capacity(m);
    for i in 0..m {
        let mut v = rows[i].clone();
        for _pass in 0..2 {
            for j in 0..i {
                let mut dot = 0.0;
                let bj = &bstar[j];
                for k in 0..dim {
                    dot += v[k] * bj[k];
                }
                let c = dot / d[j];
                if c != 0.0 {
                    for k in 0..dim {
                        v[k] -= c * bj[k];
                    }
                }
            }
        }
        let nn: f64 = v.iter().map(|x| x * x).sum();
        d.push(nn);
        bstar.push(v);
    }
    if !keep_vectors {
        bstar.clear();
    }
    Gso { d, bstar }
}

/// f*G - g*F over Z[X]/(X^n+1)
pub fn ntru_lhs(f: &[i64], g: &[i64], cf: &[i64], cg: &[i64]) -> Vec<i128> {
    let a = poly::mul_z(f, cg);
    let b = poly::mul_z(g, cf);
    a.iter().zip(b.iter()).map(|(x, y)| x - y).collect()
}

pub fn ntru_holds(f: &[i64], g: &[i64], cf: &[i64], cg: &[i64]) -> bool {
    let l = ntru_lhs(f, g, cf, cg);
    l[0] == super::Q as i128 && l[1..].iter().all(|&x| x == 0)
}

/// Modified Gram-Schmidt, row-oriented, parallel over the rows still to be reduced.
/// Returns the orthogonalised rows and their squared norms.
pub fn gram_schmidt_par(rows: &[Vec<f64>]) -> Gso {
    use rayon::prelude::*;
    let m = rows.len();
    let mut v: Vec<Vec<f64>> = rows.to_vec();
    let mut d = vec![0.0f64; m];
    for i in 0..m {
        let (head, tail) = v.split_at_mut(i + 1);
        let vi = &head[i];
        let di: f64 = vi.iter().map(|x| x * x).sum();
        d[i] = di;
        if di == 0.0 {
            continue;
        }
        tail.par_iter_mut().for_each(|vk| {
            let mut dot = 0.0;
            for (a, b) in vk.iter().zip(vi.iter()) {
                dot += a * b;
            }
            let c = dot / di;
            if c != 0.0 {
                for (a, b) in vk.iter_mut().zip(vi.iter()) {
                    *a -= c * b;
                }
            }
        });
    }
    Gso { d, bstar: v }
}

/// rows of the secret basis in the order the signing tree is built over:
/// X^{brv(i)} * (g, -f) for i < n, then X^{brv(i)} * (G, -F)
pub fn tower_rows(b0: &[Vec<i64>; 4]) -> Vec<Vec<f64>> {
    let mut rows = rotations(&b0[0], &b0[1], true);
    rows.extend(rotations(&b0[2], &b0[3], true));
    rows
}

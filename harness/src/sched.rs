//! E4: call-level schedule / history exploration on real OS threads. The controller holds the
//! baton: exactly one API call runs at a time, on the thread the history names. Real threads matter
//! because thread_rng and any thread_local a change might introduce are per OS thread.

use std::sync::mpsc::{channel, Sender};
use std::thread::JoinHandle;

type Job = Box<dyn FnOnce() + Send + 'static>;

pub struct Worker {
    tx: Option<Sender<Job>>,
    handle: Option<JoinHandle<()>>,
}

impl Worker {
    pub fn new(name: &str) -> Worker {
        let (tx, rx) = channel::<Job>();
        let handle = std::thread::Builder::new()
            .name(name.to_string())
            .stack_size(64 << 20)
            .spawn(move || {
                while let Ok(job) = rx.recv() {
                    job();
                }
            })
            .expect("spawn worker");
        Worker { tx: Some(tx), handle: Some(handle) }
    }

    /// run `f` on this worker and wait for the result (panics inside `f` are returned as Err)
    pub fn call<R: Send + 'static>(&self, f: impl FnOnce() -> R + Send + 'static) -> Result<R, String> {
        let (rtx, rrx) = channel();
        let job: Job = Box::new(move || {
            let r = crate::ctx::catch(f);
            let _ = rtx.send(r);
        });
        self.tx.as_ref().unwrap().send(job).map_err(|_| "worker gone".to_string())?;
        rrx.recv().map_err(|_| "worker died".to_string())?
    }
}

impl Drop for Worker {
    fn drop(&mut self) {
        self.tx.take();
        if let Some(h) = self.handle.take() {
            let _ = h.join();
        }
    }
}

/// run `f` on a freshly spawned thread (initial thread-local state) and wait
pub fn on_fresh_thread<R: Send + 'static>(f: impl FnOnce() -> R + Send + 'static) -> Result<R, String> {
    let h = std::thread::Builder::new()
        .stack_size(64 << 20)
        .spawn(move || crate::ctx::catch(f))
        .map_err(|e| e.to_string())?;
    h.join().map_err(|_| "thread join failed".to_string())?
}

/// all sequences of length `depth` over `alphabet` symbols (odometer order: simplest first)
pub fn sequences(alphabet: usize, depth: usize) -> Vec<Vec<usize>> {
    let mut out = vec![];
    let total = (alphabet as u64).pow(depth as u32);
    for mut k in 0..total {
        let mut s = vec![0usize; depth];
        for i in (0..depth).rev() {
            s[i] = (k % alphabet as u64) as usize;
            k /= alphabet as u64;
        }
        out.push(s);
    }
    out
}

/// all interleavings of thread programs of the given lengths, as sequences of thread indices
pub fn interleavings(lens: &[usize]) -> Vec<Vec<usize>> {
    fn rec(rem: &mut Vec<usize>, cur: &mut Vec<usize>, out: &mut Vec<Vec<usize>>) {
        if rem.iter().all(|&r| r == 0) {
            out.push(cur.clone());
            return;
        }
        for t in 0..rem.len() {
            if rem[t] > 0 {
                rem[t] -= 1;
                cur.push(t);
                rec(rem, cur, out);
                cur.pop();
                rem[t] += 1;
            }
        }
    }
    let mut out = vec![];
    rec(&mut lens.to_vec(), &mut vec![], &mut out);
    out
}

/// run this executable as a child process: `falcon-mc child <args...>`; returns stdout
pub fn child(args: &[&str]) -> Result<String, String> {
    let exe = std::env::current_exe().map_err(|e| e.to_string())?;
    let out = std::process::Command::new(exe).arg("child").args(args).output().map_err(|e| e.to_string())?;
    if !out.status.success() {
        return Err(format!("child {:?} failed: {}", args, String::from_utf8_lossy(&out.stderr)));
    }
    Ok(String::from_utf8_lossy(&out.stdout).to_string())
}

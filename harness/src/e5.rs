//! E5: the shuttle driver (built by `vf` from an instrumented copy of /repo/falcon-rust) is run as a
//! child process; its per-program results become a part of the calling check's evidence.

use crate::ctx::{Ctx, Part};
use serde_json::{json, Value};

pub fn run_part(ctx: &mut Ctx, which: &str) {
    let thorough = ctx.tier.thorough();
    let mut part = Part::new(
        &format!("E5_shuttle_{}", which.replace(',', "+")),
        &format!("controlled-scheduler exploration (shuttle engine, own exhaustive scheduler with iterative preemption bounding: all schedules with 0, then <= 1, ... then <= {} preemptions{}) of an instrumented copy of the library sources in which every std::sync / std::thread / thread_local! / lazy_static! / OnceLock use is shuttle's: 2-3 threads sharing freshly decoded key objects; each thread's result must equal what the same call produces alone, signatures verify, salts differ", if thorough { 3 } else { 2 }, if thorough { ", then shuttle's unbounded depth-first search under a cap" } else { "" }),
    );
    let bin = std::env::var("FALCON_MC_E5_BIN").unwrap_or_default();
    if bin.is_empty() {
        let why = std::env::var("FALCON_MC_E5_ERROR").unwrap_or_else(|_| "driver not built (run through ./vf)".to_string());
        ctx.cap(&format!("E5 (shuttle) part skipped: {}", why));
        part.set("skipped", json!(why));
        part.states = 0;
        ctx.add_part(part);
        return;
    }
    let out = std::process::Command::new(&bin).arg(which).env("E5_MAX_PREEMPTIONS", if thorough { "3" } else { "2" }).env("E5_UNBOUNDED", if thorough { "1" } else { "0" }).env("E5_TIME_BUDGET_S", if thorough { "900" } else { "150" }).output();
    let out = match out {
        Ok(o) => o,
        Err(e) => {
            ctx.cap(&format!("E5 (shuttle) driver could not be started: {}", e));
            ctx.add_part(part);
            return;
        }
    };
    let stdout = String::from_utf8_lossy(&out.stdout).to_string();
    let stderr = String::from_utf8_lossy(&out.stderr).to_string();
    let mut seen = 0;
    for line in stdout.lines() {
        let Ok(v) = serde_json::from_str::<Value>(line) else { continue };
        if v.get("note").is_some() {
            if v.get("deterministic_under_installed_streams").and_then(|x| x.as_bool()) == Some(false) {
                ctx.cap("E5: the library draws randomness that the installed streams do not own; the byte-equality oracle is off, verify and distinct-salt oracles remain");
            }
            part.set("baseline", v.clone());
            continue;
        }
        seen += 1;
        let prog = v.get("program").and_then(|x| x.as_str()).unwrap_or("?").to_string();
        // `which` may list several programs (one set-up for all of them); failures are keyed by the program's own key
        let pkey = v.get("key").and_then(|x| x.as_str()).unwrap_or(which).to_string();
        let n = v.get("schedules").and_then(|x| x.as_u64()).unwrap_or(0);
        part.states += n;
        part.transitions += n;
        part.validated += n;
        part.outcome(format!("{}: {} schedules", prog, n));
        if v.get("capped").and_then(|x| x.as_bool()) == Some(true) {
            ctx.cap(&format!("E5: schedule cap or wall-clock budget reached for '{}' ({} schedules explored, fewest preemptions first)", prog, n));
        }
        if let Some(pb) = v.get("per_preemption_count") {
            part.set(&format!("schedules_by_preemption_count[{}]", prog), pb.clone());
        }
        if v.get("points_beyond_the_first_4096_not_deviated_from").and_then(|x| x.as_bool()) == Some(true) {
            ctx.cap(&format!("E5: '{}' has executions with more than 4096 scheduling points; deviations are explored at the first 4096 only", prog));
        }
        if let Some(f) = v.get("failure").and_then(|x| x.as_str()) {
            if prog.starts_with("set-up") {
                // the single-threaded preparation itself (key generations, decodes, signatures in one process) failed
                // inside the library: that is a finding about the library, not about schedules; there is nothing to replay
                ctx.violation(
                    format!("e5:{}:set-up", which),
                    format!("the single-threaded set-up of the controlled-scheduler programs (Falcon-512 and Falcon-1024 key generation, decoding of the keys just encoded, three signatures, all in one process) fails inside the library: {}", f),
                    json!({"kind":"e5-setup","which":which}),
                );
                continue;
            }
            let prefix = v.get("prefix").and_then(|x| x.as_str()).unwrap_or("").to_string();
            // before trusting the failure: replay the recorded choice prefix twice, both must fail the same way
            let again = |_: u32| -> Option<String> {
                let o = std::process::Command::new(&bin).arg("replay").arg(&pkey).arg(&prefix).env("E5_MAX_PREEMPTIONS", "0").output().ok()?;
                String::from_utf8_lossy(&o.stdout).lines().filter_map(|l| serde_json::from_str::<Value>(l).ok()).filter(|v| v.get("replayed").is_some()).filter_map(|v| v.get("failure").and_then(|x| x.as_str()).map(|s| s.to_string())).next()
            };
            let (r1, r2) = (again(1), again(2));
            if r1.is_none() || r1 != r2 {
                if ctx.has_violations() {
                    // other parts already report violations on this tree: do not let an unreplayable schedule turn the run
                    // into a machinery failure that hides them
                    ctx.cap(&format!("E5: a failing schedule of '{}' did not replay deterministically ({:?} / {:?}); not reported, other violations stand", prog, r1, r2));
                    continue;
                }
                crate::ctx::machinery_error(&format!("E5: the failing schedule of '{}' does not replay deterministically ({:?} / {:?})", prog, r1, r2));
            }
            ctx.violation(
                format!("e5:{}:{}", pkey, f.split(" (schedule").next().unwrap_or(f)),
                format!("under the controlled scheduler, program '{}' fails after {} schedules: {} (choice prefix {})", prog, n, f, prefix),
                json!({"kind":"e5","which":pkey,"prefix":prefix}),
            );
        }
    }
    if seen == 0 {
        ctx.cap(&format!("E5 (shuttle) driver produced no result (exit {:?}): {}", out.status.code(), stderr.lines().last().unwrap_or("")));
    }
    part.exhaustive = true;
    ctx.add_part(part);
}

pub fn replay(case: &Value) -> Result<Option<String>, String> {
    let bin = std::env::var("FALCON_MC_E5_BIN").unwrap_or_default();
    if bin.is_empty() {
        return Err("E5 driver not built (run through ./vf replay)".into());
    }
    let which = case.get("which").and_then(|x| x.as_str()).ok_or("which")?;
    if case.get("kind").and_then(|x| x.as_str()) == Some("e5-setup") {
        let out = std::process::Command::new(&bin).arg(which).env("E5_MAX_PREEMPTIONS", "0").output().map_err(|e| e.to_string())?;
        for line in String::from_utf8_lossy(&out.stdout).lines() {
            if let Ok(v) = serde_json::from_str::<Value>(line) {
                if v.get("program").and_then(|x| x.as_str()).map(|p| p.starts_with("set-up")).unwrap_or(false) {
                    return Ok(v.get("failure").and_then(|x| x.as_str()).map(|f| format!("the set-up fails: {}", f)));
                }
            }
        }
        return Ok(None);
    }
    let prefix = case.get("prefix").and_then(|x| x.as_str()).ok_or("prefix")?;
    let out = std::process::Command::new(&bin).arg("replay").arg(which).arg(prefix).output().map_err(|e| e.to_string())?;
    for line in String::from_utf8_lossy(&out.stdout).lines() {
        if let Ok(v) = serde_json::from_str::<Value>(line) {
            if v.get("replayed").is_some() {
                return Ok(v.get("failure").and_then(|x| x.as_str()).map(|f| format!("replayed schedule fails: {}", f)));
            }
        }
    }
    Err("the driver produced no replay result".into())
}

//! E5: the shuttle driver (built by `vf` from an instrumented copy of /repo/falcon-rust) is run as a
//! child process; its per-program results become a part of the calling check's evidence.

use crate::ctx::{Ctx, Part};
use serde_json::{json, Value};

pub fn run_part(ctx: &mut Ctx, which: &str) {
    let mut part = Part::new(
        &format!("E5_shuttle_{}", which),
        "controlled-scheduler exploration (shuttle, DFS over all schedules) of an instrumented copy of the library sources in which every std::sync / std::thread / thread_local! / lazy_static! use is shuttle's: 2-3 threads sharing keys; each thread's result must equal what the same call produces alone, signatures verify, salts differ",
    );
    let bin = std::env::var("FALCON_MC_E5_BIN").unwrap_or_default();
    if bin.is_empty() {
        let why = std::env::var("FALCON_MC_E5_ERROR").unwrap_or_else(|_| "driver not built (run through ./vf)".to_string());
        ctx.cap(&format!("E5 (shuttle) part skipped: {}", why));
        part.set("skipped", json!(why));
        part.states = 0;
        ctx.add_part(part);
        return;
    }
    let out = std::process::Command::new(&bin).arg(which).output();
    let out = match out {
        Ok(o) => o,
        Err(e) => {
            ctx.cap(&format!("E5 (shuttle) driver could not be started: {}", e));
            ctx.add_part(part);
            return;
        }
    };
    let stdout = String::from_utf8_lossy(&out.stdout).to_string();
    let stderr = String::from_utf8_lossy(&out.stderr).to_string();
    let mut seen = 0;
    for line in stdout.lines() {
        let Ok(v) = serde_json::from_str::<Value>(line) else { continue };
        seen += 1;
        let prog = v.get("program").and_then(|x| x.as_str()).unwrap_or("?").to_string();
        let n = v.get("schedules").and_then(|x| x.as_u64()).unwrap_or(0);
        part.states += n;
        part.transitions += n;
        part.validated += n;
        part.outcome(format!("{}: {} schedules", prog, n));
        if v.get("capped").and_then(|x| x.as_bool()) == Some(true) {
            ctx.cap(&format!("E5: schedule cap reached for '{}' ({} schedules explored)", prog, n));
        }
        if let Some(f) = v.get("failure").and_then(|x| x.as_str()) {
            // the failing schedule is printed by shuttle on stderr between quotes
            let sched = stderr.split("failing schedule:").nth(1).and_then(|s| s.split('"').nth(1)).map(|s| s.trim().to_string()).unwrap_or_default();
            // before trusting the failure: replay the recorded schedule twice, both must fail the same way
            if !sched.is_empty() {
                let again = |_: u32| -> Option<String> {
                    let o = std::process::Command::new(&bin).arg("replay").arg(which).arg(&sched).output().ok()?;
                    String::from_utf8_lossy(&o.stdout).lines().filter_map(|l| serde_json::from_str::<Value>(l).ok()).filter_map(|v| v.get("failure").and_then(|x| x.as_str()).map(|s| s.to_string())).next()
                };
                let (r1, r2) = (again(1), again(2));
                if r1.is_none() || r1 != r2 {
                    crate::ctx::machinery_error(&format!("E5: the failing schedule of '{}' does not replay deterministically ({:?} / {:?}): uncontrolled nondeterminism in the driver", prog, r1, r2));
                }
            }
            ctx.violation(
                format!("e5:{}:{}", which, f),
                format!("under the controlled scheduler, program '{}' fails after {} schedules: {} (schedule {})", prog, n, f, if sched.is_empty() { "not captured".to_string() } else { sched.clone() }),
                json!({"kind":"e5","which":which,"schedule":sched}),
            );
        }
    }
    if seen == 0 {
        ctx.cap(&format!("E5 (shuttle) driver produced no result (exit {:?}): {}", out.status.code(), stderr.lines().last().unwrap_or("")));
    }
    part.exhaustive = true;
    ctx.add_part(part);
}

pub fn replay(case: &Value) -> Result<Option<String>, String> {
    let bin = std::env::var("FALCON_MC_E5_BIN").unwrap_or_default();
    if bin.is_empty() {
        return Err("E5 driver not built (run through ./vf replay)".into());
    }
    let which = case.get("which").and_then(|x| x.as_str()).ok_or("which")?;
    let sched = case.get("schedule").and_then(|x| x.as_str()).ok_or("schedule")?;
    let out = std::process::Command::new(&bin).arg("replay").arg(which).arg(sched).output().map_err(|e| e.to_string())?;
    for line in String::from_utf8_lossy(&out.stdout).lines() {
        if let Ok(v) = serde_json::from_str::<Value>(line) {
            if let Some(f) = v.get("failure").and_then(|x| x.as_str()) {
                return Ok(Some(format!("replayed schedule fails: {}", f)));
            }
        }
    }
    Ok(None)
}

//! RNG environments handed to the code under test. Every draw is owned by the harness.

use rand::RngCore;

/// Feeds `sampler_z` one 17-byte answer per iteration (9 bytes BaseSampler, 1 byte sign, 7 bytes
/// BerExp); the answer for iteration k is produced on demand by `next`. rand 0.8 draws a u8 (and
/// each element of a [u8; N]) as `next_u32() as u8`, so every byte costs exactly one next_u32; the
/// upper 24 bits are filled with a marker so that code using more than the low byte is noticed.
pub struct IterRng<F: FnMut(usize) -> [u8; 17]> {
    next: F,
    cur: [u8; 17],
    pos: usize,
    pub iterations: usize,
    pub max_iterations: usize,
    pub draws: u64,
    pub log: Vec<[u8; 17]>,
}

pub const HORIZON_PANIC: &str = "verif-horizon";

impl<F: FnMut(usize) -> [u8; 17]> IterRng<F> {
    pub fn new(next: F, max_iterations: usize) -> Self {
        IterRng { next, cur: [0u8; 17], pos: 17, iterations: 0, max_iterations, draws: 0, log: vec![] }
    }
    fn byte(&mut self) -> u8 {
        if self.pos == 17 {
            if self.iterations >= self.max_iterations {
                std::panic::panic_any(HORIZON_PANIC);
            }
            self.cur = (self.next)(self.iterations);
            self.log.push(self.cur);
            self.iterations += 1;
            self.pos = 0;
        }
        let b = self.cur[self.pos];
        self.pos += 1;
        self.draws += 1;
        b
    }
    /// true when the last answer was consumed completely (the sampler stops at answer boundaries)
    pub fn at_boundary(&self) -> bool {
        self.pos == 17
    }
}

impl<F: FnMut(usize) -> [u8; 17]> RngCore for IterRng<F> {
    fn next_u32(&mut self) -> u32 {
        0xA5C3_9600 | self.byte() as u32
    }
    fn next_u64(&mut self) -> u64 {
        let lo = self.next_u32() as u64;
        let hi = self.next_u32() as u64;
        (hi << 32) | lo
    }
    fn fill_bytes(&mut self, dest: &mut [u8]) {
        for d in dest.iter_mut() {
            *d = self.byte();
        }
    }
    fn try_fill_bytes(&mut self, dest: &mut [u8]) -> Result<(), rand::Error> {
        self.fill_bytes(dest);
        Ok(())
    }
}

/// Any RNG with a draw budget: exceeding it raises the horizon panic (rejection loops under a bad key
/// or adversarial answers never go quiescent on their own).
pub struct Bounded<R: RngCore> {
    pub inner: R,
    pub words: u64,
    pub limit: u64,
}

impl<R: RngCore> Bounded<R> {
    pub fn new(inner: R, limit: u64) -> Self {
        Bounded { inner, words: 0, limit }
    }
    fn tick(&mut self, k: u64) {
        self.words += k;
        if self.words > self.limit {
            std::panic::panic_any(HORIZON_PANIC);
        }
    }
}

impl<R: RngCore> RngCore for Bounded<R> {
    fn next_u32(&mut self) -> u32 {
        self.tick(1);
        self.inner.next_u32()
    }
    fn next_u64(&mut self) -> u64 {
        self.tick(2);
        self.inner.next_u64()
    }
    fn fill_bytes(&mut self, dest: &mut [u8]) {
        self.tick((dest.len() as u64 + 3) / 4);
        self.inner.fill_bytes(dest)
    }
    fn try_fill_bytes(&mut self, dest: &mut [u8]) -> Result<(), rand::Error> {
        self.fill_bytes(dest);
        Ok(())
    }
}

/// draw budget for one signature: 64 times what an ordinary signature consumes (2n sampler calls of
/// about two 17-byte iterations each)
pub const SIGN_DRAW_LIMIT: u64 = 64 * 2 * 1024 * 2 * 17;

//! RNG environments handed to the code under test. Every draw is owned by the harness.

use rand::RngCore;

/// Feeds `sampler_z` one 17-byte answer per iteration (9 bytes BaseSampler, 1 byte sign, 7 bytes
/// BerExp); the answer for iteration k is produced on demand by `next`. rand 0.8 draws a u8 (and
/// each element of a [u8; N]) as `next_u32() as u8`, so every byte costs exactly one next_u32; the
/// upper 24 bits are filled with a marker so that code using more than the low byte is noticed.
pub struct IterRng<F: FnMut(usize) -> [u8; 17]> {
    next: F,
    cur: [u8; 17],
    pos: usize,
    pub iterations: usize,
    pub max_iterations: usize,
    pub draws: u64,
    pub log: Vec<[u8; 17]>,
}

pub const HORIZON_PANIC: &str = "verif-horizon";

impl<F: FnMut(usize) -> [u8; 17]> IterRng<F> {
    pub fn new(next: F, max_iterations: usize) -> Self {
        IterRng { next, cur: [0u8; 17], pos: 17, iterations: 0, max_iterations, draws: 0, log: vec![] }
    }
    fn byte(&mut self) -> u8 {
        if self.pos == 17 {
            if self.iterations >= self.max_iterations {
                std::panic::panic_any(HORIZON_PANIC);
            }
            self.cur = (self.next)(self.iterations);
            self.log.push(self.cur);
            self.iterations += 1;
            self.pos = 0;
        }
        let b = self.cur[self.pos];
        self.pos += 1;
        self.draws += 1;
        b
    }
    /// true when the last answer was consumed completely (the sampler stops at answer boundaries)
    pub fn at_boundary(&self) -> bool {
        self.pos == 17
    }
}

impl<F: FnMut(usize) -> [u8; 17]> RngCore for IterRng<F> {
    fn next_u32(&mut self) -> u32 {
        0xA5C3_9600 | self.byte() as u32
    }
    fn next_u64(&mut self) -> u64 {
        let lo = self.next_u32() as u64;
        let hi = self.next_u32() as u64;
        (hi << 32) | lo
    }
    fn fill_bytes(&mut self, dest: &mut [u8]) {
        for d in dest.iter_mut() {
            *d = self.byte();
        }
    }
    fn try_fill_bytes(&mut self, dest: &mut [u8]) -> Result<(), rand::Error> {
        self.fill_bytes(dest);
        Ok(())
    }
}

/// A generator whose output is a fixed sequence of 32-bit words (an honest ChaCha20 stream) with a mask XORed onto
/// the first words: lets a check ask which generator bits a value depends on. fill_bytes consumes whole words
/// (little-endian), like the block generators of rand.
pub struct WordStream {
    head: Vec<u32>,
    base: rand_chacha::ChaCha20Rng,
    pos: usize,
    limit: usize,
}

impl WordStream {
    /// `limit` words may be drawn in total; `flip_bit` indexes the bits of the first 64 words
    pub fn new(stream: u64, limit: usize, flip_bit: Option<usize>) -> Self {
        use rand::SeedableRng;
        let mut base = rand_chacha::ChaCha20Rng::seed_from_u64(0x5eed_0000_0000_0000 ^ stream);
        let mut head: Vec<u32> = (0..64).map(|_| base.next_u32()).collect();
        if let Some(b) = flip_bit {
            head[b / 32] ^= 1 << (b % 32);
        }
        WordStream { head, base, pos: 0, limit }
    }
}

impl RngCore for WordStream {
    fn next_u32(&mut self) -> u32 {
        if self.pos >= self.limit {
            std::panic::panic_any(HORIZON_PANIC);
        }
        self.pos += 1;
        if self.pos <= self.head.len() {
            self.head[self.pos - 1]
        } else {
            self.base.next_u32()
        }
    }
    fn next_u64(&mut self) -> u64 {
        let lo = self.next_u32() as u64;
        let hi = self.next_u32() as u64;
        (hi << 32) | lo
    }
    fn fill_bytes(&mut self, dest: &mut [u8]) {
        for chunk in dest.chunks_mut(4) {
            let w = self.next_u32().to_le_bytes();
            chunk.copy_from_slice(&w[..chunk.len()]);
        }
    }
    fn try_fill_bytes(&mut self, dest: &mut [u8]) -> Result<(), rand::Error> {
        self.fill_bytes(dest);
        Ok(())
    }
}

/// Any RNG with a draw budget: exceeding it raises the horizon panic (rejection loops under a bad key
/// or adversarial answers never go quiescent on their own).
pub struct Bounded<R: RngCore> {
    pub inner: R,
    pub words: u64,
    pub limit: u64,
}

impl<R: RngCore> Bounded<R> {
    pub fn new(inner: R, limit: u64) -> Self {
        Bounded { inner, words: 0, limit }
    }
    fn tick(&mut self, k: u64) {
        self.words += k;
        if self.words > self.limit {
            std::panic::panic_any(HORIZON_PANIC);
        }
    }
}

impl<R: RngCore> RngCore for Bounded<R> {
    fn next_u32(&mut self) -> u32 {
        self.tick(1);
        self.inner.next_u32()
    }
    fn next_u64(&mut self) -> u64 {
        self.tick(2);
        self.inner.next_u64()
    }
    fn fill_bytes(&mut self, dest: &mut [u8]) {
        self.tick((dest.len() as u64 + 3) / 4);
        self.inner.fill_bytes(dest)
    }
    fn try_fill_bytes(&mut self, dest: &mut [u8]) -> Result<(), rand::Error> {
        self.fill_bytes(dest);
        Ok(())
    }
}

/// draw budget for one signature: 64 times what an ordinary signature consumes (2n sampler calls of
/// about two 17-byte iterations each)
pub const SIGN_DRAW_LIMIT: u64 = 64 * 2 * 1024 * 2 * 17;

/// Role-aware environment for `sign`: the salt and the per-attempt seed come from fill_bytes, every
/// sampler iteration is exactly 17 next_u32 draws (9 BaseSampler + 1 sign + 7 BerExp). Default answers
/// are the next outputs of a fixed ChaCha20 stream (an honest run); `forced` replaces the 17 bytes of
/// chosen iterations (counted from the start of the signature).
pub struct SignEnv {
    base: rand_chacha::ChaCha20Rng,
    forced: std::collections::BTreeMap<u64, [u8; 17]>,
    pub iter: u64,
    pos: usize,
    cur: Option<[u8; 17]>,
    pub words: u64,
    limit: u64,
    pub misaligned_fill: bool,
    pub forced_served: u64,
    /// every completed 17-byte sampler iteration as served (low bytes), in order
    pub log: Vec<[u8; 17]>,
    cur_served: [u8; 17],
    pub keep_log: bool,
    pub salt: Vec<u8>,
}

impl SignEnv {
    pub fn new(stream: u64, forced: std::collections::BTreeMap<u64, [u8; 17]>) -> Self {
        use rand::SeedableRng;
        SignEnv {
            base: rand_chacha::ChaCha20Rng::seed_from_u64(0x5eed_0000_0000_0000 ^ stream),
            forced,
            iter: 0,
            pos: 0,
            cur: None,
            words: 0,
            limit: SIGN_DRAW_LIMIT,
            misaligned_fill: false,
            forced_served: 0,
            log: vec![],
            cur_served: [0u8; 17],
            keep_log: false,
            salt: vec![],
        }
    }
    pub fn logging(mut self) -> Self {
        self.keep_log = true;
        self
    }
}

impl RngCore for SignEnv {
    fn next_u32(&mut self) -> u32 {
        self.words += 1;
        if self.words > self.limit {
            std::panic::panic_any(HORIZON_PANIC);
        }
        if self.pos == 0 {
            self.cur = self.forced.get(&self.iter).copied();
            if self.cur.is_some() {
                self.forced_served += 1;
            }
        }
        let honest = self.base.next_u32();
        let v = match &self.cur {
            Some(bytes) => (honest & 0xffff_ff00) | bytes[self.pos] as u32,
            None => honest,
        };
        self.cur_served[self.pos] = v as u8;
        self.pos += 1;
        if self.pos == 17 {
            self.pos = 0;
            self.iter += 1;
            if self.keep_log {
                self.log.push(self.cur_served);
            }
        }
        v
    }
    fn next_u64(&mut self) -> u64 {
        let lo = self.next_u32() as u64;
        let hi = self.next_u32() as u64;
        (hi << 32) | lo
    }
    fn fill_bytes(&mut self, dest: &mut [u8]) {
        if self.pos != 0 {
            // the code under test no longer draws as the role model assumes: stop steering
            self.misaligned_fill = true;
            self.forced.clear();
            self.pos = 0;
        }
        self.words += (dest.len() as u64 + 3) / 4;
        self.base.fill_bytes(dest);
        if dest.len() == 40 && self.salt.is_empty() {
            self.salt = dest.to_vec();
        }
    }
    fn try_fill_bytes(&mut self, dest: &mut [u8]) -> Result<(), rand::Error> {
        self.fill_bytes(dest);
        Ok(())
    }
}

/// Installable handle to an environment the harness keeps a second reference to (so counters can be
/// read after the call).
pub struct Shared<R: RngCore + Send>(pub std::sync::Arc<std::sync::Mutex<R>>);

impl<R: RngCore + Send> RngCore for Shared<R> {
    fn next_u32(&mut self) -> u32 {
        self.0.lock().unwrap_or_else(|e| e.into_inner()).next_u32()
    }
    fn next_u64(&mut self) -> u64 {
        self.0.lock().unwrap_or_else(|e| e.into_inner()).next_u64()
    }
    fn fill_bytes(&mut self, dest: &mut [u8]) {
        self.0.lock().unwrap_or_else(|e| e.into_inner()).fill_bytes(dest)
    }
    fn try_fill_bytes(&mut self, dest: &mut [u8]) -> Result<(), rand::Error> {
        self.fill_bytes(dest);
        Ok(())
    }
}

/// run `f` with `env` installed as the signer's RNG on this thread; returns f's result (panics
/// propagate after the environment is removed) and leaves `env` readable by the caller
pub fn with_env<R: RngCore + Send + 'static, T>(env: &std::sync::Arc<std::sync::Mutex<R>>, f: impl FnOnce() -> T) -> T {
    falcon_rust::verif_hooks::install_rng(Box::new(Shared(env.clone())));
    let r = std::panic::catch_unwind(std::panic::AssertUnwindSafe(f));
    falcon_rust::verif_hooks::uninstall_rng();
    match r {
        Ok(v) => v,
        Err(e) => std::panic::resume_unwind(e),
    }
}

//! (to be filled)

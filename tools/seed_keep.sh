#!/bin/bash
# usage: seed_keep.sh <worktree> <name> <detected-by: e.g. "C09 quick"> <notes>
set -eu
W="$1"; NAME="$2"; DET="$3"; NOTES="${4:-}"
D=/verif/seeded/$NAME
mkdir -p "$D"
cp "$W/seeded/patch.diff" "$D/patch.diff"
for f in demo.diff demo.rs; do [ -f "$W/seeded/$f" ] && cp "$W/seeded/$f" "$D/$f"; done
python3 - "$W/seeded/meta.json" "$D/meta.json" "$DET" "$NOTES" <<'PY'
import json,sys
src,dst,det,notes=sys.argv[1:5]
m=json.load(open(src))
m["confirmed_by_verifier"]={"suite_passes_with_change":True,"demo_fails_with_change":True,"demo_passes_without_change":True,
  "how":"tools/seed_verify.sh in the sub-agent's scratch worktree: cargo test --workspace (61+2 pass) with the change; demo.diff applied: demo fails; patch reverted: demo passes; build with --cfg falcon_rust_verif succeeds"}
m["detected_by"]=det
if notes: m["verifier_notes"]=notes
json.dump(m,open(dst,"w"),indent=1)
PY
echo kept $D; ls $D

#!/usr/bin/env python3
"""Regenerates /verif/MANIFEST.json from the table below (single source of truth for the interface)."""
import json, os, subprocess

ROOT = os.path.dirname(os.path.dirname(os.path.abspath(__file__)))

HOOK_COMMITS = ["6ee76f6", "7011089", "be0b96b", "b874fb5"]
FIX_COMMITS = ["6e0caa7", "2840cea", "9555ff6", "6248959", "f561aed", "90dd435", "4d73456", "dda770d"]

# id -> (technique, level text, level note, design ref)
CHECKS = {
 "C01": ("deviation-bounded exhaustive exploration of the signer's environment answers (forced sampler outcomes at chosen iterations, <= 2 deviations; all (i,j) forced retries of both rejection loops) plus exhaustive call-level histories/interleavings over messages, variants, shared keys and threads on real OS threads",
         "Stateless exploration of the real sign under a role-aware RNG environment: every set of <= 2 deviations from an honest ChaCha stream over 6 positions x 8 forced answers, all forced-retry pairs with i+j <= 3, every (key, message, stream) cell, all depth-2 (thorough 3) same-thread histories over message lengths x variants, all 30 call-level interleavings of three thread programs sharing keys, a fresh-process history differential, and E5: every schedule with <= 2 (thorough 3) preemptions of three threads signing inside an instrumented copy under a controlled scheduler; each signature checked by the real verify AND the reference Algorithm 16. The default run is replayed and must repeat byte for byte.",
         "Seeds/messages/streams outside the alphabet are not covered. Intra-call preemption is explored by E5 for three programs up to the preemption bound (shuttle engine: all atomics SeqCst); beyond that only a free-running, labelled, non-exhaustive part.", "3/C01"),
 "C02": ("exhaustive enumeration of engineered (msg, signature, public key) triples with prescribed squared norm (bound-1/bound/bound+1/far/wrap sizes), centred-range edge entries and malformed encodings, each through the real verify and a schoolbook Algorithm 16 (plus PQClean)",
         "Bounded exhaustive over a product alphabet of triples aimed at the glue of verify (centred lift, bound constant, comparison operator, accumulator width, decoder verdict), each compared with the reference Algorithm 16; components (hash, decoder, NTT pipeline, Z_q gates) are decided for all inputs by C14/C07/C11/C12.",
         "Compositional: relies on C07, C11, C12, C14 for the components. Reference verify is schoolbook; PQClean's verifier is a third source on the common domain.", "3/C02"),
 "C03": ("exhaustive input enumeration of the real decoders/verify (lengths x headers x patterns, single fields, end-of-buffer windows of the streaming decoder) under catch_unwind in an overflow-checked build",
         "Bounded exhaustive exploration of the real code: every length x header x 6 body patterns for all six decoders, every value of selected key fields, and every (alignment, distance-to-end, last/non-last, tail) configuration of the signature decoder at production size, each execution required not to unwind. Complete for the length/header guards and for the decoder's buffer-end automaton; bounded for bodies.",
         "Assumes the decoder's behaviour on a coefficient depends only on cursor alignment, bits left, last/non-last and the local window (argued from the code). Build: opt-level 3 with overflow-checks and debug-assertions on.", "3/C03"),
 "C04": ("enumeration of a seed window x both variants through the real keygen with exact integer oracles (NTRU equation, invertibility, public key) and a dense Gram-Schmidt reference for the tree leaves",
         "Bounded exhaustive over an enumerated seed window (plus the seeds that exercise key generation's rejection branches): f*G-g*F = q exactly over Z, f invertible mod q at all n roots, h*f = g mod q for the encoded key, encoded polynomials equal the signing basis, every leaf in [sigma_min, sigma_max]; on a subset of keys the leaves equal sigma/||b~_k|| of an independent dense 2n x 2n Gram-Schmidt; seeds are steered to the rejection branches of key generation; a fresh-process history differential checks that keys and trees do not depend on what ran before.",
         "Seeds outside the window are not covered. Dense Gram-Schmidt in f64 (tolerance 1e-9, observed 1e-14).", "3/C04"),
 "C05": ("exhaustive per-field codec enumeration (all representable values of every field position class) plus enumeration of a seed window x messages x signer environments with round-trip and sign-after-decode oracles",
         "Codec bijectivity is complete per field (data-independent loops); key generation is covered on an enumerated seed window that contains the seeds on which keys were found to leave the encodable range; every key's representability is read through the hook.",
         "Seeds outside the window are not covered. Sign-after-decode uses fixed ChaCha streams and the production RNG behind a draw budget.", "3/C05"),
 "C06": ("exhaustive enumeration of lengths x header bytes x body patterns for all six decoders and of every value of selected fields / edge values at every field, with the re-encode-equality oracle and a reference framing",
         "Complete per field: acceptance sets are products of independent fields, every field's acceptance set is enumerated completely at 4 positions and at its edges everywhere; all 256 headers x all lengths (thorough) for every decoder.",
         "Reference framing from the specification (validated against PQClean decoders at setup). Secret keys whose f is not invertible are outside what the property lists and only checked for canonical re-encoding.", "3/C06"),
 "C07": ("exhaustive enumeration of all byte strings <= 3 bytes (n <= 3) plus end-of-buffer windows and run-length tokens at production size, each compared with a bit-level reference codec",
         "Small-scope complete model check of compress/decompress against bit-level Algorithms 17/18 (50.5M strings quick, 12.9G strings thorough, every one compared), an encoder alphabet with every budget, complete enumeration of buffer-end windows and unary-run boundaries at n = 512/1024, and all ordered pairs of calls over a call alphabet on one thread (state carried between calls).",
         "Reference codec is our own transcription of Algorithms 17/18 (validated against PQClean comp_encode/comp_decode at setup). Transfer from small scope to production size rests on the branch structure of the codec (cursor mod 8, bits left, last/non-last, run length).", "3/C07"),
 "C08": ("exhaustive enumeration of all sign-call histories up to depth 3 (thorough 4) over keys x messages x {two long-lived threads, fresh threads}, executed one call at a time on real OS threads with the production RNG, plus child processes; salts compared across the whole run; E5: all schedules with <= 2 (thorough 3) preemptions of three concurrent signers in an instrumented copy",
         "History model checking at call granularity: every sequence of (operation, thread) up to the depth bound is executed against the real signer; after every call the new salt must differ from all salts seen (same thread, other thread, fresh thread, other process) and repeated (key,message) must give different signatures; no salt byte position is constant.",
         "Salt values are not owned by the harness (production RNG by necessity); verdict deterministic up to a 2^-100 event. Intra-call preemption explored by E5 up to the preemption bound for one three-thread program.", "3/C08"),
 "C09": ("exhaustive exploration of all per-iteration answer sequences (depth 2, thorough 3) of the real sampler under a role-aware byte environment against the specification's SamplerZ; threshold extraction by binary search on the real decision functions and exact assembly of the output law (probabilistic model checking)",
         "Building blocks on generating sets (all RCDT thresholds from both sides, all u with <= 2 non-zero bytes, ApproxExp grid bit-exact, BerExp byte patterns at every first-difference position); every answer sequence up to the depth bound and every rejection run of length <= 64 (thorough 256) replayed against the reference; the exact output law from extracted thresholds within 2^-40 total variation of the ideal Gaussian on a (r, sigma') grid.",
         "Uniformity of the random bytes is the premise. (mu, sigma') are gridded. FP evaluation order of x follows the reference C code; comparison bytes keep a 2^16 margin.", "3/C09"),
 "C10": ("per-execution trace conformance of ffSampling against a dense nearest-plane reference (exhaustive over all sampler-outcome sequences at n = 2 and 4; keys x messages x forced-answer sets at production size) plus tree-vs-Gram-Schmidt equality",
         "What enumeration can decide for a distributional property: invariants I1 (tree leaves = sigma/||b~_k|| for generated AND reloaded keys), I2 (every one of the 2n sampler calls of every signing attempt is centred at the dense nearest-plane centre, uses its leaf as width, returns the specification's SamplerZ output on the logged bytes, and the emitted vector is target - sum z_k b_k), I3 (norm bound). Together with C09 these imply the spherical Gaussian by the Klein/GPV theorem.",
         "The implication I1-I3 + C09 => distribution is a textbook theorem, not checked. The literal moment statement is not tested (sampling is outside this family).", "3/C10"),
 "C11": ("complete enumeration of tables and of all basis vectors / basis pairs for every n <= 1024 (generating set of a linear / bilinear circuit)",
         "Complete: 2059 table equalities; ntt(X^i)[k] = omega_k^i for all i,k and every n; inverse round trip; all basis pairs (thorough: all 1.4M pairs) give +-X^(i+j). Linearity of the data-independent butterfly circuit extends this to all q^n inputs; extreme-value families (q-1 on every aligned block) against the defining sums exercise the exact-gates premise.",
         "Trusts: exact Z_q gates (C12, exhaustive); absence of data-dependent branches in the butterflies (read from the code; additionally probed on two-term and dense vectors against the schoolbook product).", "3/C11"),
 "C12": ("complete enumeration of all 12289^2 operand pairs, all residues and all 65536 i16 inputs against integer arithmetic",
         "Complete finite-domain check: every ordered pair for add/sub/mul/multiply, every residue for neg/inverse/balanced/value, every i16 for Felt::new, raw inner representation compared with i64 rem_euclid.",
         "Reference is i64 arithmetic. Nothing else assumed.", "3/C12"),
 "C13": ("enumeration of the generating set of the FFT circuit: all scaled basis vectors, all basis pairs (thorough) and rounding-maximising corner families for every n, against exact integer products with the property's own 2^-30 relative threshold",
         "Generating-set check: ifft(fft(M X^i)), ifft(fft(2^14 X^i) .* fft(2^10 X^j)) for all pairs, split/merge identities, and Walsh/extreme sign patterns at full magnitude against the exact i128 negacyclic product; worst observed error is 2^-20 of the allowance.",
         "Linearity up to rounding (standard error model) extends the basis to all real inputs; non-basis inputs other than the corner families are covered only through that model.", "3/C13"),
 "C14": ("exhaustive enumeration of all strings of length <= 2 (thorough) and block-boundary lengths x 256 fill bytes against an independent Keccak + Algorithm 3, with forced hits on the rejection threshold",
         "Bounded exhaustive: every short string and every absorb-boundary length compared coefficient by coefficient with our own SHAKE-256 + Algorithm 3; the evidence counts how often chunks equal to 61444/61445/65535 and a rejection right before the last coefficient occurred (must be > 0).",
         "Own Keccak validated against PQClean fips202.c at setup. Longer messages covered only through SHAKE's block structure.", "3/C14"),
 "C15": ("exhaustive enumeration of histories around a keygen call: fresh child process after every prefix (depth 1, thorough 2) of other operations incl. the other variant, same/other/fresh thread, call-level interleavings of two thread programs; seeds steered to the longest rejection runs; all 256 single-bit seed flips; E5: all schedules with <= 2 preemptions of keygen next to a signer",
         "History model checking with a differential oracle (state reached from the initial state vs state reached from elsewhere): the key bytes of keygen(seed) in every explored history equal those of a fresh process; every seed bit flip changes both secret and public key.",
         "Seeds outside the enumerated ones not covered; the target seeds include one whose key has a large f/g coefficient (vacuity guard). Call-level interleavings exhaustively; intra-call preemption through E5 up to the bound.", "3/C15"),
 "C16": ("enumeration of seeds x messages x four interop directions against the vendored reference implementation with deterministic randomness, including signer randomness searched so that HashToPoint meets its rejection threshold",
         "Bounded exhaustive differential check: reference signs with our keys, we verify and it verifies under our key bytes; our signatures (reframed) verify in the reference; reference keys import and re-encode byte-identically, cross-signing both ways; engineered signatures with coefficients up to 2047 encoded by the reference compressor.",
         "Reference = PQClean clean implementation vendored from the cargo registry, linked with our deterministic randombytes. Bounded seeds/messages.", "3/C16"),
 "C17": ("exhaustive enumeration of a multiplier alphabet k applied to real (ntru_gen) and structured (f,g,F0,G0) for every n in {2..1024}, both reductions run on each input and compared, exact integer oracles",
         "Bounded exhaustive: for each base quadruple every k in the alphabet; oracles: i32 and big-integer versions identical, f*G'-g*F' preserved exactly (i128), idempotence, exact multiple-of-(f,g) certificate; degenerate inputs (0,0), (1,0), already reduced; the 30-bit NTT checked as a component (roots, scaled basis incl. small negatives, x^j * f for all j).",
         "Inputs outside the alphabet are not covered; coefficients are kept below 2^24 as the property states.", "3/C17"),
}

# parts added after the fourth round of seeded changes (appended to the level text)
ADDED = {
 "C01": " Added later: call histories on one thread (two keys of one variant; four key pairs assigned in turn to the same variable: each signature verifies and equals the one made with a key object of its own); a message-length ladder (every length 0..=600, thorough 0..=2100, and lengths around 2^12..2^18) and tight-fit signatures (Falcon-1024 signatures whose compressed s2 leaves 0..8 bits of the body unused; thorough: a window of 60000 signer streams). Eleventh round: signatures for other outcomes of the lattice sampler (s2 + d*f for +-1 patterns d aligned so that one coefficient of s2 reaches the hundreds or thousands while the norm bound and the body length hold): honest outputs far from the typical set.",
 "C02": " Added later: verify call histories over public keys that differ in one coefficient (all pairs and triples on one thread, same variable), two-key history differential with a verify operation; a message-length ladder of triples at the bound and one above; every unary run length 0..95 at every cursor alignment (s2 = +-(128 r + low) X^j); E5 program `verify` (three threads verifying valid and invalid pairs under shared key objects, all schedules up to the preemption bound). Eleventh round: s1 steered to one extreme value on every stride class (s2 = 1, h = c - v): norms from n+1 to n*6144^2+1. Twelfth round: triples at the bound and one above for every scripted XOF chunk stream of C14's family (c computed by the reference on the stream; verify under the hooked XOF reader).",
 "C03": " Added later: verify on key/signature pairs engineered so that the spectrum it inverts is q-1 on an aligned block of slots (every block size and offset); the full unary-run ladder 0..=130 at every alignment; verify under every scripted shape of HashToPoint's XOF stream (runs of up to 2048 rejected chunks, many rejections spread out, periodic rejections) through the XOF hook. Eleventh round: the same coefficient-domain steering of s1 (all indices, every residue class modulo 2..64, halves) for verify's norm accumulators.",
 "C04": " Added later: steering seeds on which an invertible candidate misses the Gram-Schmidt bound by less than 1 (confirmed by a reference walk at run time); the Gram-Schmidt quantity of key generation as a component against the definition on 64 (thorough 512) first candidates per variant.",
 "C05": " Added later: decoder call histories on one thread (valid keys of both variants and rejected strings, all pairs and triples x,y,x); runs of zero coefficients (length 1..24, 32, 40, 64 x start position) in f, g, F through the reference encoder, from_bytes and to_bytes; E5 program `decode` (three threads decoding, re-encoding and signing concurrently).",
 "C06": " Added later: the reserved value at every subset of size 2 and 3 of 12 secret-key field positions; out-of-range values at every pair of 6 public-key positions. Eleventh round: the reserved value -128 in F fields of shifted bases F + c X^k f of generated keys (still NTRU bases: only the field test can reject); the oracle is three-valued for secret keys (malformed: reject; well-formed NTRU basis with G in range: accept; well-formed but not a basis: either, canonical if accepted).",
 "C07": " Added later: S6 - every sequence of 2..4 (thorough 5) coefficient tokens over a 10-token alphabet with invalid tokens, and every pair of tokens at 9 positions of a production-size body. Eleventh round: unary runs at the widths of 10-, 12-, 15- and 16-bit counters (1023..65537 zeros) in an 8300-byte buffer.",
 "C08": " Added later: key copies (clones before / after first use, clone of a clone, objects decoded twice) signing in every order of a depth-3 history; a message-length ladder (every length 0..=1100, thorough 0..=4200, and lengths around 2^13..2^20); salt entropy by information flow: with the generator replaced by a fixed word stream, at least 320 of its first 2048 bits must influence the salt. Twelfth round: the quick tier runs the whole check a second time in the plain release build (debug assertions off), where a salt draw hidden inside debug_assert! disappears.",
 "C09": " Added later: call pairs on one thread over all ordered pairs of (mu, sigma', sigma_min) cells; a centre ladder (mu = +-(k + f), k up to 32000, f at the ends and middle of [0,1)).",
 "C10": " Added later: I2 on a key that replaced another key in the same variable; the range half of I1 on a wider key window (24/8 keys quick, 256/64 thorough, plus steering seeds); per key the executions with the most negative / most positive sampler centre of a message ladder; small-scope targets scaled so that centres reach +-7000.",
 "C11": " Added later: length histories on one thread (all triples of 7 lengths, inputs sharing a prefix across lengths; slot roots read on a fresh thread); intermediate-state sparsity - inputs built by CRT so that their residues modulo the partial factors X^m - zeta have each half-block zero or dense (all patterns up to 8 halves, singles/pairs/periodic beyond), forward and inverse, every n >= 8.",
 "C12": " Added later: call histories on one fresh thread (inverse_or_zero along [x, 0, 0, x, x, 1] for every residue, triples over a small set, add/sub/mul along (a,b),(b,a),(a,a),(a,b),(b,b)); product-structured batches for batch inversion.",
 "C13": " Added later: length histories on one thread (all triples of 5 lengths; round trip, split/merge, product at each step); a scale ladder (operands scaled by 2^k, k = -64..14); split/merge on transforms of real polynomials chosen in the transform domain (real / imaginary / complex / zero on partner slots), against the definition over partner slots.",
 "C14": " Added later: call histories on one thread (all x,y,x and x,y,y over 14 (input, degree) symbols incl. inputs of 1024, 1025 and 5000 bytes); a length ladder (every length 0..=1100, thorough 0..=4200, around 2^13..2^20, two contents); scripted XOF streams through the XOF hook (constant accepted values incl. multiples of q, runs of k rejected chunks at four positions for k up to 2048, r rejections spread over n + r chunks, periodic rejections) against Algorithm 3 on the same stream.",
 "C15": " Added later: single-bit flips also on the seeds whose first candidate does not fit the encoding (retry branch) and on the seed with the longest rejection run; bit flips on the all-ones seed. Twelfth round: a history process that dies or prints no key while the baseline process succeeds is a violation (keygen-fails-after-history), not a machinery failure.",
 "C16": " Added later: a message history of shrinking and growing lengths on one thread in both interop directions; engineered signatures of squared norm bound-1, bound, bound+1 through the reference verifier and ours; a message-length ladder in both interop directions; keys whose public polynomial has a coefficient 0 or q-1; signatures at the edge of the fixed-size body (0..8 unused bits, compression retries).",
 "C17": " Added later: call histories in which a reduction follows the Gram-Schmidt quantity and a reduction of a look-alike pair (same degree and norms) on the same thread; short unreduced pairs (F,G) = round(rho X^c (f,g)), rho in {1/2+, 3/4, 1-}, every coefficient shorter than the largest of (f,g), at every n. Eleventh round: scalar mul/add/sub of the 30-bit field over an alphabet of seam values against every 16-bit value and every value within 4096 of the modulus (a non-canonical result must still negate, lift and multiply correctly).",
}

PENDING = {
}

def main():
    checks = []
    for pid in sorted(CHECKS):
        tech, text, note, ref = CHECKS[pid]
        text = text + ADDED.get(pid, "")
        checks.append({
            "property_id": pid,
            "quick_cmd": f"./vf check {pid} --tier quick",
            "thorough_cmd": f"./vf check {pid} --tier thorough",
            "evidence_file": f"/verif/evidence/{pid}.json",
            "replay_cmd_template": "./vf replay {path}",
            "engine": "falcon-mc",
            "level_claimed": {"category": "model_checking", "text": text, "design_ref": f"DESIGN.md section {ref}"},
            "level_note": note,
            "technique": tech,
        })
    props = [json.loads(l)["id"] for l in open(os.path.join(ROOT, "properties.jsonl"))]
    na = []
    for pid in props:
        if pid not in CHECKS:
            na.append({"property_id": pid, "reason": PENDING.get(pid, "check not registered yet: under construction in this build round (see DESIGN.md section 3 for the plan); not claimed until it has been seen to pass on the unchanged tree and to fail on a mutant")})
    m = {
        "version": 1,
        "setup_cmd": "./vf setup",
        "hooks": {
            "guard": "--cfg falcon_rust_verif",
            "enable": "RUSTFLAGS=\"--cfg falcon_rust_verif\" via /verif/harness/.cargo/config.toml; the harness crate path-depends on /repo/falcon-rust, so every check rebuilds from /repo's working tree",
            "baseline_off_cmd": "cd /repo && cargo test --workspace --no-fail-fast --offline",
            "source_commits": HOOK_COMMITS,
            "add_only": True,
        },
        "engines": [
            {"name": "falcon-mc", "path": "/verif/harness", "serves_properties": sorted(CHECKS),
             "kind_free_text": "Rust harness linked against the real falcon-rust crate (hooks on): exhaustive input enumeration (E1/E2), deviation-bounded environment-answer exploration (E3), call-level schedule/history exploration on real threads and fresh child processes with a differential oracle (E4); reference models in harness/src/refmodel; PQClean (vendored C) as third-source oracle"},
            {"name": "falcon-mc-shuttle", "path": "/verif/shuttle/driver", "serves_properties": ["C01", "C02", "C04", "C05", "C08", "C10", "C15", "C16"],
             "kind_free_text": "E5: own exhaustive preemption-bounded scheduler (CHESS-style, deviations ordered by window then preemption count; one forked process per execution, set-up in a process of its own) on the shuttle engine, over programs of 2-4 threads calling sign / verify / keygen / from_bytes on an instrumented copy of the library sources (tools/instrument.py rewrites std::sync, std::thread, thread_local!, lazy_static!, OnceLock/LazyLock to shuttle's and inserts scheduling points at unsafe blocks and static mut uses); oracle: each result equals the same call made alone, signatures verify, salts differ, and a sequential re-check after the threads have joined"},
        ],
        "checks": checks,
        "not_applicable": na,
        "notes": "Exit codes: 0 held on everything explored (KNOWN-FINDING lines for listed findings), 1 with VIOLATION line(s), 2 machinery failure (no verdict). VERIF_SEED only selects which bounded window is enumerated.",
    }
    with open(os.path.join(ROOT, "MANIFEST.json"), "w") as f:
        json.dump(m, f, indent=1)
        f.write("\n")

if __name__ == "__main__":
    main()

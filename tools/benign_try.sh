#!/bin/bash
# usage: benign_try.sh <patch.diff> [check ids...]   applies a behaviour-preserving change to /repo, runs the quick checks
# (all 17 by default), reverts. Every check must exit 0: anything else is a false alarm (or a machinery failure) of the harness.
set -u
P="$1"; shift
CHECKS="${*:-C01 C02 C03 C04 C05 C06 C07 C08 C09 C10 C11 C12 C13 C14 C15 C16 C17}"
cd /repo || exit 2
if [ -n "$(git status --porcelain --untracked-files=no)" ]; then echo "/repo not clean"; exit 2; fi
git apply "$P" || { echo "patch does not apply to /repo"; exit 2; }
trap 'git -C /repo checkout -- . ' EXIT
bad=0
for c in $CHECKS; do
  out=$(cd /verif && ./vf check "$c" --tier quick 2>&1); rc=$?
  if [ $rc -ne 0 ]; then bad=$((bad+1)); echo "ALARM $c exit $rc :: $(echo "$out" | grep -m2 -E "VIOLATION|MACHINERY" | cut -c1-300)"; else echo "ok    $c $(echo "$out" | grep -o "wall=[0-9.]*s" | tail -1)"; fi
done
echo "alarms=$bad"

#!/usr/bin/env python3
"""Prints a markdown table of the parts of every check from evidence/*.json (what the last run covered)."""
import json, glob, os
ROOT = os.path.dirname(os.path.dirname(os.path.abspath(__file__)))
print("| check | part | executions / states | exhaustive within its stated space |")
print("|-------|------|---------------------|-------------------------------------|")
for f in sorted(glob.glob(os.path.join(ROOT, "evidence", "C*.json"))):
    e = json.load(open(f))
    pid = e["property_id"]
    for p in e["coverage"]["parts"]:
        print(f"| {pid} | {p['name']} | {p.get('states', 0)} | {'yes' if p.get('exhaustive_within_stated_space') else 'no (generating set / labelled)'} |")

#!/bin/bash
# Applies every kept seeded change (seeded/<name>/patch.diff, mutants/*.patch) to /repo in turn, runs the quick
# check of the property it breaks, expects a VIOLATION (exit 1), reverts. Prints one line per change.
# usage: tools/seeded_matrix.sh [name-filter]
set -u
cd /verif || exit 2
if [ -n "$(git -C /repo status --porcelain --untracked-files=no)" ]; then echo "/repo not clean"; exit 2; fi
ok=0; miss=0
for d in seeded/*/ ; do
  name=$(basename "$d")
  case "$name" in *${1:-}*) ;; *) continue ;; esac
  prop=$(jq -r '.check_with // .property' "$d/meta.json" | cut -c1-3)
  git -C /repo apply "/verif/$d/patch.diff" 2>/dev/null || { echo "SKIP  $name (patch does not apply)"; continue; }
  out=$(./vf check "$prop" --tier quick 2>&1); rc=$?
  git -C /repo checkout -- .
  first=$(echo "$out" | grep -m1 "^VIOLATION" | cut -c1-160)
  if [ $rc -eq 1 ]; then ok=$((ok+1)); echo "CAUGHT $name by $prop :: $first"; elif jq -e ".detected_by | startswith(\"NOT\")" "$d/meta.json" >/dev/null; then echo "KNOWN-MISS $name (documented in DESIGN.md 8.8)"; else miss=$((miss+1)); echo "MISSED $name by $prop (exit $rc) :: $(echo "$out" | tail -1 | cut -c1-120)"; fi
done
for p in mutants/*.patch; do
  name=$(basename "$p")
  git -C /repo apply "/verif/$p" 2>/dev/null || { echo "SKIP  $name"; continue; }
  out=$(./vf check C08 --tier quick 2>&1); rc=$?
  git -C /repo checkout -- .
  if [ $rc -eq 1 ]; then ok=$((ok+1)); echo "CAUGHT $name by C08 :: $(echo "$out" | grep -m1 "^VIOLATION" | cut -c1-160)"; else miss=$((miss+1)); echo "MISSED $name (exit $rc)"; fi
done
echo "caught=$ok missed=$miss"

#!/bin/bash
# usage: seed_verify.sh <worktree> <cargo-test-filter-for-demo> [extra cargo test args]
# Confirms, in the scratch worktree: suite passes with the change; demo fails with it, passes without.
set -u
W="$1"; FILTER="$2"; shift 2
cd "$W" || exit 2
export CARGO_NET_OFFLINE=true
echo "== worktree status"; git status --short | head
git diff -- falcon-rust/src > /tmp/seed/.cur.$$.diff
if ! diff -q <(git apply --numstat seeded/patch.diff 2>/dev/null) <(git apply --numstat /tmp/seed/.cur.$$.diff 2>/dev/null) >/dev/null; then echo "NOTE: working tree diff differs from seeded/patch.diff (numstat)"; fi
echo "== suite with change"
cargo test --workspace --no-fail-fast --offline 2>&1 | grep -E "^test result|FAILED|failed" | head -8
echo "== build with hooks cfg"
RUSTFLAGS="--cfg falcon_rust_verif" CARGO_TARGET_DIR=$W/target/hk cargo build -p falcon-rust --offline 2>&1 | tail -1
echo "== demo WITH change"
git apply seeded/demo.diff || { echo "demo.diff does not apply"; exit 2; }
cargo test --offline "$@" "$FILTER" 2>&1 | grep -E "^test |^test result|panicked" | head -12
echo "== demo WITHOUT change"
git apply -R seeded/patch.diff || { echo "cannot revert patch"; exit 2; }
cargo test --offline "$@" "$FILTER" 2>&1 | grep -E "^test |^test result|panicked" | head -12
# restore: change applied, demo not applied
git apply seeded/patch.diff
git apply -R seeded/demo.diff
echo "== done"; git status --short | head

#!/bin/bash
# usage: seed_try.sh <patch.diff> <check ids...>   applies the patch to /repo, runs the quick checks, reverts.
set -u
P="$1"; shift
cd /repo || exit 2
if [ -n "$(git status --porcelain --untracked-files=no)" ]; then echo "/repo not clean"; exit 2; fi
git apply "$P" || { echo "patch does not apply to /repo"; exit 2; }
trap 'git -C /repo checkout -- . ' EXIT
for c in "$@"; do
  cd /verif && ./vf check "$c" --tier "${TIER:-quick}" 2>&1 | grep -E "VIOLATION|PASS|MACHINERY|KNOWN|tier=" | cut -c1-400 | head -6
  echo "   -> exit ${PIPESTATUS[0]}"
done
